#!/bin/bash
# development helper: run every claimed quick (or $1) check and print one line each
cd "$(dirname "$0")/.."
tier=${1:-quick}
for c in $(python3 -c "import json; print(' '.join(c['property_id'] for c in json.load(open('MANIFEST.json'))['checks']))"); do
  out=$(./check $c --tier $tier 2>&1); rc=$?
  echo "$c rc=$rc $(echo "$out" | grep '^\[C' | cut -c1-200)"
  echo "$out" | grep "^VIOLATION\|^INCONCLUSIVE\|^KNOWN" | cut -c1-300
done
