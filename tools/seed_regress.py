#!/usr/bin/env python3
"""Development tool: re-run every stored seeded change against the *current* repository head (scratch worktree, removed afterwards)
and compare with the detection recorded when it was first evaluated. Patches that no longer apply (the code they touch was repaired
since) are listed as such. Writes seeded/REGRESSION.md. usage: seed_regress.py [substring]"""
import glob, json, os, shutil, subprocess, sys, tempfile, time

def sh(cmd, cwd=None, env=None, timeout=3600):
    p = subprocess.run(cmd, shell=True, cwd=cwd, env=env, capture_output=True, text=True, timeout=timeout)
    return p.returncode, p.stdout + p.stderr

rows = []
sel = sys.argv[1] if len(sys.argv) > 1 else ""
head = sh("git -C /repo log --oneline -1")[1].split()[0]
for d in sorted(glob.glob("/verif/seeded/C*")):
    key = os.path.basename(d)
    if sel and sel not in key:
        continue
    try:
        meta = json.load(open(os.path.join(d, "meta.json")))
    except Exception:
        continue
    pid = meta["property"]
    cross = (meta.get("cross_check") or {}).get("property") if not meta.get("detected") else None
    wt = tempfile.mkdtemp(prefix="rg_", dir="/tmp"); os.rmdir(wt)
    sh(f"git -C /repo worktree add -q {wt} HEAD")
    try:
        rc, out = sh(f"git apply {os.path.join(d, 'patch.diff')}", cwd=wt)
        if rc != 0:
            rows.append((key, "patch no longer applies", "", "")); continue
        res = []
        for chk in [pid] + ([cross] if cross else []):
            outdir = tempfile.mkdtemp(prefix="rgout_", dir="/tmp")
            t = time.time()
            rc, out = sh(f"/verif/check {chk} --tier quick", env=dict(os.environ, VERIF_REPO=wt, VERIF_OUT=outdir, VERIF_NO_XCHECK="1"), timeout=7200)
            res.append((chk, rc, round(time.time() - t)))
            shutil.rmtree(outdir, ignore_errors=True)
        was = "caught" if meta.get("detected") else (f"caught by {cross}" if cross and meta["cross_check"].get("detected") else ("exit 3" if meta.get("check_exit") == 3 else "missed"))
        now = "; ".join(f"{c}: {'VIOLATION' if r == 1 else ('exit 3' if r == 3 else 'exit ' + str(r))} ({s}s)" for c, r, s in res)
        ok = any(r == 1 for _, r, _ in res) == ("caught" in was)
        rows.append((key, was, now, "same" if ok else "CHANGED"))
    finally:
        sh(f"git -C /repo worktree remove --force {wt}"); shutil.rmtree(wt, ignore_errors=True)
    print(rows[-1], flush=True)
suffix = ("-" + sel) if sel else ""
with open("/verif/seeded/REGRESSION" + suffix + ".md", "w") as f:
    f.write(f"# Seeded changes re-run against repository head {head}\n\n| change | recorded | now | |\n|---|---|---|---|\n")
    for r in rows:
        f.write("| " + " | ".join(r) + " |\n")
    n_app = sum(1 for r in rows if r[1] != "patch no longer applies")
    f.write(f"\n{n_app} of {len(rows)} patches still apply; {sum(1 for r in rows if r[3] == 'same')} give the recorded verdict, {sum(1 for r in rows if r[3] == 'CHANGED')} changed.\n")
