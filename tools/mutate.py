#!/usr/bin/env python3
"""Development tool (not a manifest command): apply a textual mutation to a scratch copy of /repo/tempest and
run one property check against it.  usage: mutate.py <ID> <file> <old> <new> [--tier quick] [--only s]"""
import os, shutil, subprocess, sys, tempfile

def main():
    pid, rel, old, new = sys.argv[1:5]
    extra = sys.argv[5:]
    d = tempfile.mkdtemp(prefix="mut_", dir=os.environ.get("TMPDIR", "/tmp"))
    try:
        shutil.copytree("/repo/tempest", os.path.join(d, "tempest"))
        p = os.path.join(d, rel)
        s = open(p).read()
        if s.count(old) < 1:
            print("MUTATION TARGET NOT FOUND"); sys.exit(2)
        open(p, "w").write(s.replace(old, new, 1))
        env = dict(os.environ, VERIF_REPO=d, VERIF_NO_XCHECK="1", VERIF_OUT=d)
        r = subprocess.run(["/verif/check", pid] + extra, env=env, capture_output=True, text=True)
        out = [l for l in r.stdout.splitlines() if not l.startswith("WARNING")]
        print("\n".join(out[-int(os.environ.get("MUT_TAIL","8")):]))
        print("exit", r.returncode)
    finally:
        shutil.rmtree(d, ignore_errors=True)
        # restore evidence of the real tree is the caller's business
main()
