#!/usr/bin/env python3
"""writes the seeded-change table (DESIGN.md section 10.5) from seeded/*/meta.json"""
import glob, json, os, re
FIRST_MISSED = {
    "C04-6A": "the compute/replace/compute obligation replaced the history by one with the same batch sizes; a replacement with the same number of iterations but other sizes per iteration added",
    "C05-6A": "inconclusive at first (exit 3): the change keys a cache on float(beta), which the symbolic-temperature obligations refuse; a step / replace-pool-in-place / step obligation with grid temperatures and symbolic likelihoods added (B-replaced-pool)",
    "C17-6A": "no operation handed buffers in with copy=False and reused them after the commit",
    "C06-6A": "inconclusive (exit 3), not a pass: the vectorised rewrite (cumsum/ceil/diff/repeat with dtype=float) is outside what the symbolic arrays model - np.repeat with symbolic counts needs a fork per count vector",
    "C03-6A": "inconclusive (exit 3), not a pass: the change adds a fork on equality of symbolic log-likelihoods and the two-iteration tpCN obligations exhaust their wall-clock budget; a plateau variant (all three log-likelihoods the same atom) was tried and also ran out of budget on the unchanged tree, so it is not registered",
    "C03-5A": "the replay of wrapped RWM moves looked at the acceptance factor of the proposal only, not at the point handed to the user's functions in a full step (exit 3)",
    "C07-5B": "not a violation on the repaired head: fix 90a1e27 copies the vectorised likelihood output, the demonstration passes with the change applied",
    "C08-5B": "tempfile.mkstemp / os.fdopen were not modelled in the file-system double (harness error, exit 3)",
    "C09-5A": "the replay passed Python ints only; the symbolic seed stands for an integer of any representation (exit 3)",
    "C09-5B": "the builtin hash() of text (salted per interpreter) was not treated as an entropy source outside the seed",
    "C11-5B": "C11 had no warm-up obligation with blobs (C07 reported it); C07's obligation is now imported",
    "C12-5B": "the evidence-after-run obligation existed for fresh runs only; resumed run without a further iteration added",
    "C13-5A": "the replay pool completed tasks in reversed order - an involution, for which applying the permutation twice is right (exit 3)",
    "C13-5B": "patch ported (repair 90a1e27 touched the same lines); the resume obligation stopped before the first resumed iteration",
    "C15-5B": "that fit() hands normalised weights to the EM steps was an assumption of the step obligations; now an obligation of its own",
    "C16-5A": "index sets were sorted numpy arrays only; the sampler passes the user's Python lists in the user's order",
    "C16-5B": "every call got fresh index arrays; the runners pass the same list objects on every iteration",
    "C17-5A": "no operation with a refused strict commit",
    "C17-5B": "no history with batches of different size",
    "C18-5A": "the running clause was only exercised through the training step; construction-time wiring of the steps added",
    "C18-5B": "the pool option was not a dimension of the configuration lattice",
    "C19-5A": "inconclusive at first (exit 3): the symbolic obligations run one ECME iteration and three of them exhaust their budget on the extra branch; a common scale on every coordinate with two scripted iterations added (scale-common)",
    "C19-5B": "the configured fallback was always above the finite fitted dof",
    "C20-5A": "patch ported (repair c52ae6f touched trim_weights); reported at the first evaluation",
"C09-A": "no obligation with an explicit random_state + resample='syst'", "C09-B": "replay used fixed seeds instead of the model's (seed 0)",
    "C06-B": "random stub had no multinomial / no model of numpy's sum tolerance", "C04-B": "finiteness for large magnitudes was outside the claim (range abstraction added)",
    "C10-A": "same: evidence underflow for shifts of -735 nats", "C10-B": "no volume-mode obligation in C10", "C08-A": "save was exercised before any likelihood call; pickler double accepted pool objects",
    "C08-B": "n_total of the resuming call was not observed", "C03-A": "only nu=3 was encoded; draw-order mismatch was silently cut", "C03-B": "symbolic mode statistics bypassed ModeStatistics.__init__",
    "C11-B": "quick tier had n=2 only (needs more unsupported than supported draws)", "C12-B": "resume target not observed", "C13-B": "pool double had no submit()/as_completed interface",
    "C15-B": "cap clause needs >= 8 points (two clusters splittable in one sweep)", "C16-A": "int64 bit-and missing in the bit-vector scalar (harness error)", "C17-B": "no operation handing in a read-only view",
    "C03-3A": "one kernel iteration per run only: state carried from iteration 1 to 2 (a stale distance cache) was never exercised",
    "C03-3B": "same: modes re-attached after the accept step only matter from the second iteration on",
    "C09-3B": "no sampler iteration with periodic checkpoints (save_every)",
    "C11-3A": "harness error: numpy inside SamplerCore._log_like was not modelled for symbolic likelihood values",
    "C11-3B": "no resume in the middle of the warm-up phase",
    "C14-3B": "clusterer double had no labels_ attribute (hard labels of the fit, which may differ from predict)",
    "C15-3A": "one fit per model object only",
    "C19-3A": "np.isclose was not modelled on symbolic data (harness error)",
    "C08-3A": "pickler double accepted pool objects inside the checkpoint dictionary (only dumps(core) refused them)",
    "C08-3B": "resume obligations stopped at the loop head; the first iteration after a resume with clustering was not run",
    "C13-3A": "numpy.random as seen by the dispatch code was the real module (consumption not observed)",
    "C13-3B": "no obligation comparing reported calls with evaluations across a resume",
    "C20-3B": "magnitudes (underflow/overflow of squared weights) were outside the exact-real claim; round-off model added",
    "C18-3B": "running with a pool object and periodic checkpoints is not claimed by C18; reported by C08 (save-configurations)",
    "C19-3B": "the change is in ModeStatistics.from_particles, not in the fit; reported by C14 (mode-fit-draws)",
    "C20-B": "d=2 affine invariance with symbolic samples is beyond nlsat; concrete samples + symbolic ill-conditioned map added (round 3)",
    "C20-2B": "same",
    "C18-A": "running with pool>=2 and checkpoints is not claimed by C18; reported by C08 (save-configurations)",
    "C03-4A": "one-step obligations had K=1 only; with an empty lower-numbered mode the walker's mode index and its rank among populated modes differ",
    "C03-4B": "exact log-domain algebra cannot see exp(d) underflowing before the power beta is taken; range abstraction of exp/pow added",
    "C04-4A": "np.log1p was not modelled on symbolic values (harness error)",
    "C04-4B": "no history with unequal batches whose mean size equals the first batch size (2,1,3)",
    "C07-4A": "first evaluation was confounded by the warm-up repair in the repository (draw budget); then: concrete replay never produced exactly-zero weights",
    "C08-4B": "the file-system double treated write() as reaching the OS at once; user-space buffering (flush/close) was not modelled",
    "C09-4A": "no sampler run with a zero-likelihood region (the replacement draw of the warm-up), and no same-seed-twice replay for the entropy clause",
    "C10-4B": "first evaluation confounded by the warm-up repair; final evidence at the wrong temperature is C12's clause and is reported there",
    "C11-4B": "the kernel was never run with zero-likelihood proposals (-inf arithmetic was missing in the exact-real scalar)",
    "C12-4B": "the replays recomputed the reference with the function under test; independent MIS reference added",
    "C14-4A": "the pipeline ran at beta = 0.5 only; the smallest positive temperature 2^-14 added",
    "C17-4B": "import was exercised through update_from_dict only, not through the from_dict constructor",
    "C18-4B": "running is not claimed by C18; the vectorize+pool combination is reported by C13",
    "C19-4A": "linalg.pinv was not modelled (harness error); then: needs scalings 1e-6 and 1e6 on different coordinates (cond 1e24)",
    "C10-2B": "temperatures were on a rational grid; arbitrary real temperatures added (uninterpreted exp(beta*l), Ackermann congruence)",
    "C19-A": "budget exhausted; replay compared at scale 0.1 only (and with numpy's absolute tolerance)", "C19-B": "configured fallback equalled the class default in the harness"}
# changes that were reported when they were evaluated and have since become harmless because the defect they build on was repaired
HARMLESS_NOW = {k: "reported when evaluated; harmless since fix 18ba979 (systematic_resample's random_state no longer re-seeds the global stream - the pre-existing defect all three changes built on)"
                for k in ("C09-A", "C09-2B", "C09-4B")}
rows = []
for d in sorted(glob.glob(os.path.join(os.path.dirname(__file__), "..", "seeded", "*"))):
    try:
        m = json.load(open(os.path.join(d, "meta.json")))
    except Exception:
        continue
    key = os.path.basename(d)
    note = m.get("needs_to_manifest", "")
    first = [l.strip("-* ").strip() for l in note.splitlines() if l.strip() and not l.startswith("#")]
    what = (first[0] if first else "")[:150]
    sigs = [re.sub(r"^\s*signature=", "", l)[:110] for l in m.get("check_output", []) if "signature=" in l][:1]
    status = "caught (VIOLATION)" if m.get("detected") else ("inconclusive (exit 3)" if m.get("check_exit") == 3 else "missed")
    cc = m.get("cross_check")
    if not m.get("detected") and cc and cc.get("detected"):
        status += f"; caught by {cc['property']}"
        sigs_cc = [re.sub(r"^\s*signature=", "", l)[:110] for l in cc.get("output", []) if "signature=" in l][:1]
    else:
        sigs_cc = []
    sigs = sigs or sigs_cc
    if m.get("confirmed") is False:
        status = "not a violation on the repaired head (demonstration passes); check exit 0"
    rows.append((key, m.get("confirmed"), status, m.get("check_wall_s"), what.replace("|", "/"), (sigs[0] if sigs else "").replace("|", "/"), "; ".join(x for x in (FIRST_MISSED.get(key, ""), HARMLESS_NOW.get(key, "")) if x)))
print("| change | confirmed | quick check | wall s | what it is | reported as | first missed because |")
print("|---|---|---|---|---|---|---|")
for r in rows:
    print("| " + " | ".join(str(x) for x in r) + " |")
n = sum(1 for r in rows if r[1] is not False); c = sum(1 for r in rows if r[2].startswith("caught"))
u = len(rows) - n
x = sum(1 for r in rows if "caught by" in r[2])
print(f"\n{c} of {n} confirmed changes are reported as VIOLATION by the quick tier of the property they target; {x} more by the quick tier of another property"
      + (f"; {u} stored change(s) turned out not to break the property on the repaired head and are not counted." if u else "."))
