#!/usr/bin/env python3
"""writes the seeded-change table (DESIGN.md section 10.5) from seeded/*/meta.json"""
import glob, json, os, re
FIRST_MISSED = {"C09-A": "no obligation with an explicit random_state + resample='syst'", "C09-B": "replay used fixed seeds instead of the model's (seed 0)",
    "C06-B": "random stub had no multinomial / no model of numpy's sum tolerance", "C04-B": "finiteness for large magnitudes was outside the claim (range abstraction added)",
    "C10-A": "same: evidence underflow for shifts of -735 nats", "C10-B": "no volume-mode obligation in C10", "C08-A": "save was exercised before any likelihood call; pickler double accepted pool objects",
    "C08-B": "n_total of the resuming call was not observed", "C03-A": "only nu=3 was encoded; draw-order mismatch was silently cut", "C03-B": "symbolic mode statistics bypassed ModeStatistics.__init__",
    "C11-B": "quick tier had n=2 only (needs more unsupported than supported draws)", "C12-B": "resume target not observed", "C13-B": "pool double had no submit()/as_completed interface",
    "C15-B": "cap clause needs >= 8 points (two clusters splittable in one sweep)", "C16-A": "int64 bit-and missing in the bit-vector scalar (harness error)", "C17-B": "no operation handing in a read-only view",
    "C19-A": "budget exhausted; replay compared at scale 0.1 only (and with numpy's absolute tolerance)", "C19-B": "configured fallback equalled the class default in the harness"}
rows = []
for d in sorted(glob.glob(os.path.join(os.path.dirname(__file__), "..", "seeded", "*"))):
    try:
        m = json.load(open(os.path.join(d, "meta.json")))
    except Exception:
        continue
    key = os.path.basename(d)
    note = m.get("needs_to_manifest", "")
    first = [l.strip("-* ").strip() for l in note.splitlines() if l.strip() and not l.startswith("#")]
    what = (first[0] if first else "")[:150]
    sigs = [re.sub(r"^\s*signature=", "", l)[:110] for l in m.get("check_output", []) if "signature=" in l][:1]
    status = "caught (VIOLATION)" if m.get("detected") else ("inconclusive (exit 3)" if m.get("check_exit") == 3 else "missed")
    rows.append((key, m.get("confirmed"), status, m.get("check_wall_s"), what.replace("|", "/"), (sigs[0] if sigs else "").replace("|", "/"), FIRST_MISSED.get(key, "")))
print("| change | confirmed | quick check | wall s | what it is | reported as | first missed because |")
print("|---|---|---|---|---|---|---|")
for r in rows:
    print("| " + " | ".join(str(x) for x in r) + " |")
n = len(rows); c = sum(1 for r in rows if r[2].startswith("caught"))
print(f"\n{c} of {n} confirmed changes are reported as VIOLATION by the quick tier of the property they target.")
