#!/usr/bin/env python3
"""Regenerates /verif/MANIFEST.json from the table below (run after adding a property check)."""
import json, os

CLAIMED = {
 "C03": ("bounded symbolic execution of one real kernel step (both kernels) with the involutive form of detailed balance decided by z3 (QF_NRA): involution, unit Jacobian, acceptance region == min(1, target ratio), K>1 modes, two iterations == composition of two steps, magnitudes of the ratio under a range abstraction of double exp; wrapped tpCN moves and RWM with a reflective coordinate and correlated scale matrix are reported as known findings", "DSE + z3 nlsat; involution witness", "§4 C03"),
 "C04": ("every feasible path of the real compute_logw_and_logz over symbolic log-likelihoods/evidences; per-sample formula, evidence, normalisation, order- and shift-invariance are z3 identities over exact reals, for the stated batch sizes, a beta grid and arbitrary real temperatures (uninterpreted exp(beta*l) with congruence instances)", "DSE on numpy object arrays + log-domain algebra + z3 nlsat", "§4 C04"),
 "C05": ("all paths of the real Reweighter (ESS and volume modes) over an uninterpreted pool family with symbolic beta_prev/targets (bounded bisection depth), plus the real weight computation on a two-sample pool", "DSE + z3 (QF_UFLRA / QF_NRA)", "§4 C05"),
 "C06": ("all paths of the real systematic_resample / Resampler.run for symbolic weights and symbolic uniform offset within the size bounds; index validity, inverse-CDF, floor/ceil copies law as z3 queries; bit-precise (QF_FP) over all offsets for concrete dyadic weights", "DSE + z3 (QF_LRA/NRA)", "§4 C06"),
 "C07": ("inductive step per pipeline stage from an arbitrary coherent symbolic pre-state with uninterpreted user callbacks; coherence of everything written is a z3 query per path", "DSE + z3 (QF_UFNRA), uninterpreted callbacks", "§4 C07"),
 "C08": ("restore exactness, resume bookkeeping and crash safety of the real save/load code against a recording file-system double; the crash point and the number of bytes of the in-flight write are solver variables", "DSE + z3 (LIA) crash-point model", "§4 C08"),
 "C09": ("the numpy global stream is threaded as an uninterpreted state term through the real code; 'no reset' and 'seeded at construction' are z3 queries over all seeds and initial states", "concolic execution + z3 (UF)", "§4 C09"),
 "C10": ("relational execution (logL vs logL+c, symbolic c) of each consumer of log-likelihood values; equal schedule/particles/weights and evidence shift beta*c as z3 identities", "relational DSE + z3", "§4 C10"),
 "C11": ("all -inf patterns and replacement choices of W consecutive real warm-up iterations; recorded evidence within the per-iteration supported fractions as z3 queries, incl. batches without a supported draw, resume in mid warm-up and a kernel step with zero-likelihood proposals", "DSE + log-domain algebra + z3", "§4 C11"),
 "C12": ("all 16 posterior() flag combinations on a symbolic history (every trimming/resampling path), the loop exit condition and the post-loop evidence, as z3 queries", "DSE + log-domain algebra + z3", "§4 C12"),
 "C13": ("all evaluation strategies incl. symbolic pool size and every completion order of a pool double; outputs equal term-by-term and calls == evaluated points on every accept/reject path", "DSE + z3 (UF/LIA), symbolic completion order", "§4 C13"),
 "C14": ("real Trainer/Resampler/ModeStatistics with a contract double for the clusterer and the t-fit; label/mode coherence and fitted-before-predict for symbolic iteration index, cadence and labels, after a resume, over two consecutive iterations and under every outcome of the internal resampling", "DSE + z3 (LIA)", "§4 C14"),
 "C15": ("real M-step/covariances on symbolic data and responsibilities (algebraic invariants via nlsat); round-off model of binary64 for the d=1 variance; k-means++ initialisation under a range abstraction of exp; real hierarchical control logic with a contract double for the inner mixture, incl. a second fit", "DSE + z3 nlsat / LIA", "§4 C15"),
 "C16": ("bit-precise QF_FP encoding obtained by executing the real apply_boundary_conditions/check_bounds on symbolic doubles; range, idempotence, modulo value and triangle-wave value decided for all finite doubles (value clauses per binade); the closing clause (symmetry of the folded random-walk proposal) is decided on the real RWM step (d=1 periodic/reflective, d=2 reflective: known finding for correlated scale matrices)", "symbolic execution + z3 QF_FP/BV bit-blasting", "§4 C16"),
 "C17": ("operation sequences over the real StateManager/Sampler accessors with scribbling of every returned buffer; later observables must be term-equal (z3) to their pre-scribble values", "DSE + scribble symbols + z3", "§4 C17"),
 "C18": ("real Sampler.__init__/SamplerConfig validation on symbolic option values; constructor raises iff the documented-constraint predicate is false, on every path; a slice of the running clause (training step under every partition of the pool, fit double enforcing the real precondition) reports a known finding", "DSE + z3 (LIA/LRA/strings)", "§4 C18"),
 "C19": ("one ECME iteration of the real fit_mvstud and the dof fallback in ModeStatistics on symbolic data; equivariance/bounding-box/PSD as z3 queries (nu update as uninterpreted function); the dof decision can depend on the data (QF_FP, existential); concrete data under ill-conditioned scalings with numpy's pinv cut-off modelled", "relational DSE + z3 (QF_UFNRA)", "§4 C19"),
 "C20": ("all paths of the real ESS/trim_weights/volume_variation on symbolic weights and samples within size bounds; bounds, threshold structure and invariances as z3 queries; ESS in the round-off model of binary64 for weights in [1e-300,1e300]; d=2 invariance on concrete samples under symbolic ill-conditioned maps", "DSE + z3 nlsat", "§4 C20"),
}
NOTE = ("bounded: array sizes, dimensions, loop unrollings and value grids are stated per obligation in the evidence file; exact-real arithmetic unless the obligation is QF_FP; "
        "environment (np.random, user callbacks, sub-algorithms named in the evidence) replaced by nondeterministic stubs constrained by their documented contract; "
        "z3 5.1 decides, a sample of queries is re-decided by z3 4.8.12")
NA = {
 "C01": "distributional whole-run property (bias of the posterior estimator over the ensemble of seeds): no bounded symbolic encoding of the sampling law of an adaptive SMC run is within reach of an SMT solver; its deterministic ingredients are decided under C03, C04, C06, C12",
 "C02": "distributional whole-run property (consistency and cross-run independence of the evidence estimate): not encodable; the mechanisms it names are decided under C04 (formula), C09 (global reseed) and C11 (warm-up evidence bookkeeping)",
}

def main():
    here = os.path.dirname(os.path.dirname(os.path.abspath(__file__)))
    have = sorted(f[:-3].upper() for f in os.listdir(os.path.join(here, "vf", "props")) if f.startswith("c") and f[1:3].isdigit() and f.endswith(".py"))
    reasons_pending = {}
    try:
        reasons_pending = json.load(open(os.path.join(here, "tools", "pending_reasons.json")))
    except Exception:
        pass
    checks, na = [], [{"property_id": k, "reason": v} for k, v in NA.items()]
    for pid in [f"C{i:02d}" for i in range(1, 21)]:
        if pid in NA:
            continue
        if pid in have and pid in CLAIMED:
            text, tech, ref = CLAIMED[pid]
            checks.append({
                "property_id": pid,
                "quick_cmd": f"./check {pid} --tier quick",
                "thorough_cmd": f"./check {pid} --tier thorough",
                "evidence_file": f"/verif/evidence/{pid}.json",
                "replay_cmd_template": f"./check {pid} --replay {{path}}",
                "engine": "vf-dse",
                "level_claimed": {"category": "model_checking", "text": text, "design_ref": ref},
                "level_note": NOTE,
                "technique": "solver-based checking of the real code: " + tech,
            })
        else:
            na.append({"property_id": pid, "reason": reasons_pending.get(pid, "check not built yet in this round (planned in DESIGN.md §4); not claimed")})
    m = {
        "version": 1,
        "setup_cmd": "./setup.sh",
        "hooks": {"guard": "TEMPEST_VERIF",
                  "enable": "no source hooks: all instrumentation is applied from the harness side (module-global np proxy, doubles passed as arguments, attributes patched and restored per run)",
                  "baseline_off_cmd": "cd /repo && /venv/bin/python -m pytest -ra -q -p no:cacheprovider --timeout=900 --continue-on-collection-errors",
                  "source_commits": [], "add_only": True},
        "engines": [{"name": "vf-dse", "path": "/verif/vf/engine", "serves_properties": [c["property_id"] for c in checks],
                     "kind_free_text": "in-house dynamic symbolic execution of the real tempest functions on numpy object arrays of symbolic scalars (exact reals, log-domain values, IEEE doubles, ints) with z3 deciding every branch and obligation"}],
        "checks": checks,
        "not_applicable": na,
        "notes": "exit codes: 0 held (KNOWN-FINDING lines allowed), 1 VIOLATION (replayed on the real code), 3 inconclusive/harness error. Genuine defects found and repaired are listed in known_findings.json (status fixed).",
    }
    json.dump(m, open(os.path.join(here, "MANIFEST.json"), "w"), indent=1)
    print("claimed:", [c["property_id"] for c in checks], "n/a:", [n["property_id"] for n in na])

main()
