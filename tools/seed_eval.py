#!/usr/bin/env python3
"""Development tool: confirm a seeded change (patch applies, demo fails with / passes without, test-suite still 230 green)
in a scratch worktree, run the property's check against it (VERIF_REPO=<scratch>), store it under /verif/seeded/<id>-<v>/.
usage: seed_eval.py <ID> <A|B> <source dir with patch.diff demo.py notes.md> [--tier quick|thorough] [--skip-tests]"""
import json, os, shutil, subprocess, sys, tempfile, time

def sh(cmd, cwd=None, env=None, timeout=3600):
    p = subprocess.run(cmd, shell=True, cwd=cwd, env=env, capture_output=True, text=True, timeout=timeout)
    return p.returncode, (p.stdout + p.stderr)

def main():
    pid, var, src = sys.argv[1:4]
    tier = "quick"
    if "--tier" in sys.argv:
        tier = sys.argv[sys.argv.index("--tier") + 1]
    skip_tests = "--skip-tests" in sys.argv
    # --with <ID>: additionally run another property's check against the change (recorded separately as cross_check)
    cross = sys.argv[sys.argv.index("--with") + 1] if "--with" in sys.argv else None
    wt = tempfile.mkdtemp(prefix=f"ev_{pid}{var}_", dir="/tmp")
    os.rmdir(wt)
    meta = {"property": pid, "variant": var, "tier_run": tier}
    try:
        rc, out = sh(f"git -C /repo worktree add -q {wt} HEAD")
        assert rc == 0, out
        env = dict(os.environ, PYTHONPATH=wt, PYTHONDONTWRITEBYTECODE="1")
        demo = os.path.join(src, "demo.py")
        rc0, out0 = sh(f"/venv/bin/python {demo}", cwd=wt, env=env, timeout=600)
        meta["demo_on_original_exit"] = rc0
        rc, out = sh(f"git apply {os.path.join(src, 'patch.diff')}", cwd=wt)
        meta["patch_applies"] = rc == 0
        if rc != 0:
            meta["error"] = out[-400:]
            print(json.dumps(meta, indent=1)); return
        rc1, out1 = sh(f"/venv/bin/python {demo}", cwd=wt, env=env, timeout=600)
        meta["demo_with_change_exit"] = rc1
        meta["demo_with_change_tail"] = out1.strip().splitlines()[-3:] if out1.strip() else []
        if not skip_tests:
            rc, out = sh("/venv/bin/python -m pytest -q -p no:cacheprovider --timeout=900 2>&1 | tail -6", cwd=wt, timeout=1800)
            meta["tests_with_change"] = [l for l in out.splitlines() if "passed" in l or "failed" in l][-1:]
        t = time.time()
        outdir = tempfile.mkdtemp(prefix="seedout_", dir="/tmp")
        env2 = dict(os.environ, VERIF_REPO=wt, VERIF_OUT=outdir, VERIF_NO_XCHECK="1")
        rc, out = sh(f"/verif/check {pid} --tier {tier}", env=env2, timeout=7200)
        meta["check_exit"] = rc
        meta["check_wall_s"] = round(time.time() - t, 1)
        lines = [l for l in out.splitlines() if l.startswith(("VIOLATION", "  signature", "KNOWN", "INCONCLUSIVE", "[C"))]
        meta["check_output"] = [l[:400] for l in lines[:12]]
        meta["detected"] = rc == 1
        shutil.rmtree(outdir, ignore_errors=True)
        if cross:
            outdir = tempfile.mkdtemp(prefix="seedout_", dir="/tmp")
            env2 = dict(os.environ, VERIF_REPO=wt, VERIF_OUT=outdir, VERIF_NO_XCHECK="1")
            rc, out = sh(f"/verif/check {cross} --tier {tier}", env=env2, timeout=7200)
            lines = [l for l in out.splitlines() if l.startswith(("VIOLATION", "  signature", "KNOWN", "INCONCLUSIVE", "[C"))]
            meta["cross_check"] = {"property": cross, "exit": rc, "detected": rc == 1, "output": [l[:400] for l in lines[:6]]}
            shutil.rmtree(outdir, ignore_errors=True)
    finally:
        sh(f"git -C /repo worktree remove --force {wt}")
        shutil.rmtree(wt, ignore_errors=True)
    dst = f"/verif/seeded/{pid}-{var}"
    os.makedirs(dst, exist_ok=True)
    for f in ("patch.diff", "demo.py", "notes.md"):
        if os.path.exists(os.path.join(src, f)) and os.path.abspath(src) != os.path.abspath(dst):
            shutil.copy(os.path.join(src, f), os.path.join(dst, f))
    meta["needs_to_manifest"] = open(os.path.join(src, "notes.md")).read()[:1500] if os.path.exists(os.path.join(src, "notes.md")) else ""
    meta["confirmed"] = bool(meta.get("patch_applies") and meta.get("demo_on_original_exit") == 0 and meta.get("demo_with_change_exit", 0) != 0
                             and (skip_tests or any("230 passed" in l for l in meta.get("tests_with_change", []))))
    meta["what_i_ran"] = "scratch worktree of /repo HEAD: demo on original, git apply patch, demo with change, full pytest suite; then " \
                         f"VERIF_REPO=<worktree> ./check {pid} --tier {tier}; worktree removed"
    if skip_tests and os.path.exists(os.path.join(dst, "meta.json")):
        old = json.load(open(os.path.join(dst, "meta.json")))
        meta["tests_with_change"] = old.get("tests_with_change")
        meta["first_pass"] = old.get("first_pass") or {"check_exit": old.get("check_exit"), "detected": old.get("detected"), "check_output": old.get("check_output", [])[:3]}
        meta["confirmed"] = bool(meta.get("patch_applies") and meta.get("demo_on_original_exit") == 0 and meta.get("demo_with_change_exit", 0) != 0
                                 and any("230 passed" in l for l in (meta.get("tests_with_change") or [])))
    json.dump(meta, open(os.path.join(dst, "meta.json"), "w"), indent=1)
    print(pid, var, "confirmed" if meta["confirmed"] else "NOT-CONFIRMED", "detected" if meta.get("detected") else f"missed(exit {meta.get('check_exit')})",
          meta.get("check_wall_s"), meta.get("tests_with_change"))
    for l in meta.get("check_output", [])[:6]:
        print("    ", l[:300])

main()
