"""C20 - weight utilities: ESS bounds, trimming contract, affine-invariant volume metric."""
from __future__ import annotations

import math
from fractions import Fraction

import numpy as np
import z3

import tempest.tools as tools

from vf.engine.core import PathCtx, DomainError, SymBool
from vf.engine.harness import Obligation
from vf.engine.real import LogVal, SymReal
from vf.engine.arr import NpProxy, patched, sarr, inv_small, det_small
from vf.engine.util import real, reals, eq, le, lt, scalar

PROPERTY_ID = "C20"
ASSUMPTIONS = [
    "exact-real arithmetic (dynamic range 1e300 / rounding outside the claim)",
    "np.linalg.matrix_rank(cov) < d is modelled as det(cov) == 0 (SVD tolerance semantics outside the claim)",
]


def _sum(xs):
    t = xs[0]
    for x in xs[1:]:
        t = t + x
    return t


def spec_ess(w):
    s = _sum(w)
    return (s * s) / _sum([x * x for x in w])


# ------------------------------------------------------------------ ESS


def make_ess(N):
    def harness(ctx: PathCtx):
        w = reals(ctx, "w", N, lo=0)
        ctx.assume(_sum(w).n > 0)
        k = real(ctx, "k", lo=0, lo_strict=True)
        e = scalar(tools.effective_sample_size(sarr(w)))
        ctx.observe("ess", e.term())
        ctx.check("ess>=1", le(1, e))
        ctx.check("ess<=N", le(e, N))
        ctx.check("ess==(sum w)^2/sum w^2", eq(e, spec_ess(w)))
        e2 = tools.effective_sample_size(sarr([k * x for x in w]))
        ctx.check("scale-invariant", eq(e, e2))
        u = real(ctx, "c", lo=0, lo_strict=True)
        e3 = tools.effective_sample_size(sarr([u for _ in range(N)]))
        ctx.check("uniform-gives-N", eq(e3, N))
        return None

    def concrete(m):
        return np.array([float(m[f"w{i}"]) for i in range(N)])

    def validate(wit, ret):
        w = concrete(wit)
        if w.sum() <= 0 or not np.all(np.isfinite(w)):
            return None, ""
        got = tools.effective_sample_size(w)
        return math.isclose(got, float(wit["obs:ess"]), rel_tol=1e-9), f"ESS float {got} vs symbolic {float(wit['obs:ess'])}"

    def replay(m, label, v):
        w = concrete(m)
        e = tools.effective_sample_size(w)
        k = float(m.get("k", 2.0))
        bad = {"ess>=1": e < 1 - 1e-9, "ess<=N": e > N + 1e-9,
               "scale-invariant": not math.isclose(e, tools.effective_sample_size(k * w), rel_tol=1e-9),
               "uniform-gives-N": not math.isclose(tools.effective_sample_size(np.full(N, float(m.get("c", 1.0)))), N, rel_tol=1e-9),
               "ess==(sum w)^2/sum w^2": not math.isclose(e, w.sum() ** 2 / (w ** 2).sum(), rel_tol=1e-9)}.get(label, False)
        return {"reproduced": bool(bad), "signature": f"effective_sample_size:{label}", "payload": {"w": w.tolist(), "ess": e},
                "what": f"effective_sample_size({w.tolist()}) = {e} violates {label}"}

    return Obligation(f"ess-N{N}", harness, replay=replay, validate=validate, encodes=[tools.effective_sample_size],
                      bounds=f"N={N} non-negative weights with positive sum, symbolic scale k>0", theory="QF_NRA")


def make_ess_rounding(N, kind="bounds"):
    """effective_sample_size in the round-off model of binary64 (vf.engine.rnd): weights of any magnitude in [1e-300, 1e300]
    (or exactly 0), i.e. the dynamic range named by the property; the result must be finite and inside [1, N] up to 1e-9."""
    from vf.engine.rnd import SymRnd, FloatNonFinite, rnd_array
    LO, HI = Fraction(1, 10 ** 300), Fraction(10 ** 300)
    EPS = Fraction(1, 10 ** 9)

    def weights(ctx, tag="w"):
        w = reals(ctx, tag, N, lo=0, hi=HI)
        for x in w:
            ctx.assume(z3.Or(x.term() == 0, x.term() >= _rvq(LO)))
        ctx.assume(_sum(w).n > 0)
        return w

    def harness(ctx: PathCtx):
        if kind == "uniform":
            c = real(ctx, "c", lo=LO, hi=HI)
            w = [c for _ in range(N)]
        else:
            w = weights(ctx)
        try:
            e = scalar(tools.effective_sample_size(rnd_array(w, (0, HI))))
        except FloatNonFinite as ex:
            ctx.fail("ess-is-finite", str(ex))
            return None
        ctx.ok("ess-is-finite")
        e = SymRnd.lift(e).v
        ctx.check("ess>=1(1-1e-9)", le(1 - EPS, e))
        ctx.check("ess<=N(1+1e-9)", le(e, N * (1 + EPS)))
        if kind == "uniform":
            ctx.check("uniform-gives-N(1+-1e-9)", z3.And(le(N * (1 - EPS), e), le(e, N * (1 + EPS))))
        if kind == "rescale":
            k = real(ctx, "k", lo=Fraction(1, 10 ** 150), hi=Fraction(10 ** 150))
            w2 = [k * x for x in w]
            for x in w2:
                ctx.assume(z3.Or(x.term() == 0, z3.And(x.term() >= _rvq(LO), x.term() <= _rvq(HI))))
            try:
                e2 = SymRnd.lift(scalar(tools.effective_sample_size(rnd_array(w2, (0, HI))))).v
            except FloatNonFinite as ex:
                ctx.fail("ess-is-finite", "rescaled weights: " + str(ex))
                return None
            ctx.check("rescaling-changes-ess-by<=1e-9-relative", z3.And(le(e2, e * (1 + EPS)), le(e * (1 - EPS), e2)))
        return None

    def replay(m, label, v):
        base = np.array([float(m.get(f"w{i}", m.get("c", 1.0))) for i in range(N)])
        if not np.all(np.isfinite(base)) or base.sum() <= 0:
            base = np.ones(N)
        cands = [base] + [base / base.max() * sc for sc in (1e-300, 1e-250, 1e-170, 1e-155, 1e155, 1e170, 1e250, 1e300)] + \
                [np.full(N, sc) for sc in (1e-250, 1e-170, 1.0, 1e170, 1e250)]
        worst = None
        for w in cands:
            w = np.where((w > 0) & (w < 1e-300), 0.0, np.minimum(w, 1e300))
            if w.sum() <= 0:
                continue
            with np.errstate(all="ignore"):
                e = float(tools.effective_sample_size(w.copy()))
                ref = float(tools.effective_sample_size(w / w.max()))
            bad = (not math.isfinite(e)) or e < 1 - 1e-9 or e > N * (1 + 1e-9) or abs(e - ref) > 1e-9 * ref
            if bad and worst is None:
                worst = (w.tolist(), e, ref)
        return {"reproduced": worst is not None, "signature": "effective_sample_size:magnitude", "payload": {"weights": worst[0] if worst else None, "ess": worst[1] if worst else None},
                "what": (f"effective_sample_size({worst[0]}) = {worst[1]} (the same weights rescaled to max 1 give {worst[2]}): not finite / outside [1, N] / not "
                         f"scale invariant" if worst else "model weights and their rescalings give a finite, invariant ESS")}

    return Obligation(f"ess-roundoff-{kind}-N{N}", harness, replay=replay, encodes=[tools.effective_sample_size],
                      bounds=f"N={N} weights, each 0 or in [1e-300, 1e300], positive sum" + ("; rescaling factor in [1e-150, 1e150] keeping the weights in range" if kind == "rescale" else ""),
                      stubs=["binary64 + - * / -> standard round-off model with gradual underflow and sign preservation (sound over-approximation); "
                             "overflow / division by zero end the path as non-finite"], theory="QF_NRA", timeout_ms=120000)


def _rvq(fr):
    return z3.RealVal(str(fr.numerator)) / z3.RealVal(str(fr.denominator)) if fr.denominator != 1 else z3.RealVal(str(fr.numerator))


def make_compute_ess(N, D=1):
    def harness(ctx: PathCtx):
        lw = [LogVal.atom(f"lw{i}", D) for i in range(N)]
        with patched(tools, np=NpProxy(exact_log=True)):
            r = tools.compute_ess(sarr(lw))
        w = [l.exp() for l in lw]
        ctx.check("compute_ess==ESS/N", eq(r, spec_ess(w) / N))
        ctx.check("in(0,1]", z3.And(lt(0, r), le(r, 1)))
        return None

    def replay(m, label, v):
        lw = np.array([D * math.log(float(m[f"expatom_lw{i}"])) for i in range(N)])
        r = tools.compute_ess(lw)
        w = np.exp(lw)
        ref = w.sum() ** 2 / (w ** 2).sum() / N
        return {"reproduced": not math.isclose(r, ref, rel_tol=1e-9), "signature": f"compute_ess:{label}",
                "payload": {"logw": lw.tolist(), "got": r, "expected": ref},
                "what": f"compute_ess({lw.tolist()}) = {r}, ESS/N = {ref}"}

    return Obligation(f"compute-ess-N{N}", harness, replay=replay, encodes=[tools.compute_ess],
                      bounds=f"N={N} symbolic log-weights", stubs=["np.exp on log-domain values -> exact (LogVal)"], theory="QF_NRA")


# ------------------------------------------------------------------ trim_weights


def make_trim(N, bins, ess):
    essf = Fraction(ess)

    def harness(ctx: PathCtx):
        w = reals(ctx, "w", N, lo=0)
        ctx.assume(_sum(w).n > 0)
        iters = {"n": 0}
        orig_pct = np.percentile

        def counting_percentile(a, q, *aa, **kk):
            iters["n"] += 1
            if iters["n"] > bins:
                from vf.engine.core import HarnessError
                raise LoopOverrun()
            return orig_pct(a, q, *aa, **kk)

        class LoopOverrun(Exception):
            pass

        warr = sarr(list(w))
        try:
            with patched(tools, np=NpProxy(overrides={"percentile": counting_percentile})):
                idx, wt = tools.trim_weights(np.arange(N), warr, ess=float(essf), bins=bins)
        except LoopOverrun:
            ctx.fail("terminates-within-bins", "threshold index went negative")
            return None
        except ZeroDivisionError:
            # object arrays: 1.0/np.sum([]) == 1.0/0 -> the selection was empty (floats give inf and an empty result)
            ctx.fail("nonempty-selection", "empty trimmed set")
            return None
        ctx.ok("terminates-within-bins")
        idx = [int(i) for i in idx]
        kept = set(idx)
        ctx.check("aligned-lengths", z3.BoolVal(len(idx) == len(wt) and len(kept) == len(idx) and len(idx) >= 1))
        tot = _sum(w)
        wn = [x / tot for x in w]
        skept = _sum([wn[i] for i in idx])
        ctx.check("weights-are-renormalised-originals", z3.And(*[eq(wt[k], wn[i] / skept) for k, i in enumerate(idx)]))
        ctx.check("normalised", eq(_sum(list(wt)), 1))
        dropped = [i for i in range(N) if i not in kept]
        conds = [lt(w[j], w[i]) for i in idx for j in dropped]
        ctx.check("upper-set-of-a-threshold", z3.And(*conds) if conds else z3.BoolVal(True))
        e_tot = spec_ess(w)
        e_trim = spec_ess([w[i] for i in idx])
        # the code compares with the double nearest to the requested fraction (0.99 as a double is below 99/100)
        ctx.check("ess-ratio>=requested", le(e_tot * Fraction(float(essf)), e_trim))
        return idx

    def concrete(m):
        return np.array([float(m[f"w{i}"]) for i in range(N)])

    def validate(wit, ret):
        if ret is None:
            return None, ""
        w = concrete(wit)
        if w.sum() <= 0:
            return None, ""
        idx, _ = tools.trim_weights(np.arange(N), w.copy(), ess=float(essf), bins=bins)
        if list(map(int, idx)) == list(ret):
            return True, ""
        return None, "float rounding moved the model across a threshold"

    def replay(m, label, v):
        w = concrete(m)
        with np.errstate(all="ignore"):
            idx, wt = tools.trim_weights(np.arange(N), w.copy(), ess=float(essf), bins=bins)
        idx = [int(i) for i in idx]
        wn = w / w.sum()
        dropped = [i for i in range(N) if i not in idx]
        e = lambda x: x.sum() ** 2 / (x ** 2).sum()
        bad = {"upper-set-of-a-threshold": any(wn[j] >= wn[i] for i in idx for j in dropped),
               "normalised": not math.isclose(wt.sum(), 1.0, rel_tol=1e-9),
               "ess-ratio>=requested": e(wn[idx]) / e(wn) < float(essf) - 1e-9,
               "weights-are-renormalised-originals": not np.allclose(wt, wn[idx] / wn[idx].sum(), rtol=1e-9),
               "nonempty-selection": len(idx) == 0,
               "aligned-lengths": len(idx) != len(wt)}.get(label, False)
        return {"reproduced": bool(bad), "signature": f"trim_weights:{label}", "payload": {"w": w.tolist(), "idx": idx, "wt": wt.tolist()},
                "what": f"trim_weights(arange({N}), {w.tolist()}, ess={float(essf)}, bins={bins}) kept {idx} with weights {wt.tolist()}: violates {label}"}

    return Obligation(f"trim-N{N}-bins{bins}-ess{ess}", harness, replay=replay, validate=validate, encodes=[tools.trim_weights],
                      bounds=f"N={N} weights >=0 with positive sum, bins={bins}, ess={ess}; np.percentile runs natively on the symbolic array (sort forks)",
                      theory="QF_NRA", max_paths=5000)



def make_trim_fraction(wts, bins):
    """trim_weights on a concrete weight vector in real binary64 arithmetic (numpy itself), the requested fraction ANY real in (0, 1):
    the walk down the percentile grid must stop on the grid. In exact arithmetic the untrimmed set (percentile 0) has ratio exactly 1;
    in doubles the second normalisation of the already normalised weights moves them by an ulp and the ratio can come out below 1,
    so a fraction close enough to 1 is never reached."""
    W = [float(Fraction(x)) for x in wts]
    N = len(W)

    class LoopOverrun(Exception):
        pass

    def harness(ctx: PathCtx):
        ess = real(ctx, "ess", lo=0, hi=1, lo_strict=True, hi_strict=True)
        calls = {"n": 0}
        orig_pct = np.percentile

        def pct(a, q, *aa, **kk):
            calls["n"] += 1
            if calls["n"] > bins:
                raise LoopOverrun()
            return orig_pct(a, q, *aa, **kk)

        class Frac:
            """the requested fraction as the right operand of `ratio >= ess` (ratio a concrete double)"""
            __array_priority__ = 1000

            def __le__(self, other):
                # the fraction is a double: nothing lies strictly between `other` and the next double above it
                r = float(other)
                ctx.assume(z3.Or(le(ess, Fraction(r)), le(Fraction(float(np.nextafter(r, np.inf))), ess)))
                return bool(SymBool(le(ess, Fraction(r))))

            def __rge__(self, other):
                return self.__le__(other)

            # any other use of the fraction (arithmetic, other comparisons) falls back to the plain symbolic real
            def __mul__(self, o):
                return ess * o

            __rmul__ = __mul__

            def __truediv__(self, o):
                return ess / o

            def __rtruediv__(self, o):
                return o / ess

            def __add__(self, o):
                return ess + o

            __radd__ = __add__

            def __sub__(self, o):
                return ess - o

            def __rsub__(self, o):
                return o - ess

            def __ge__(self, other):
                return bool(SymBool(le(Fraction(float(other)), ess)))

            def __lt__(self, other):
                return bool(SymBool(lt(ess, Fraction(float(other)))))

            def __gt__(self, other):
                return bool(SymBool(lt(Fraction(float(other)), ess)))

        try:
            with patched(tools, np=NpProxy(overrides={"percentile": pct})):
                idx, wt = tools.trim_weights(np.arange(N), np.array(W), ess=Frac(), bins=bins)
        except LoopOverrun:
            ctx.fail("walk-stops-on-the-percentile-grid", "no grid point reached the requested fraction: index below 0")
            return None
        ctx.ok("walk-stops-on-the-percentile-grid")
        return None

    def replay(m, label, v):
        e = float(m["ess"])
        if not e < 1.0:
            e = 1.0 - 2.0 ** -53
        try:
            tools.trim_weights(np.arange(N), np.array(W), ess=e, bins=bins)
        except IndexError as ex:
            return {"reproduced": True, "signature": "trim_weights:walk-leaves-the-grid", "payload": {"w": W, "ess": e, "bins": bins},
                    "what": f"trim_weights(arange({N}), {W}, ess={e!r}, bins={bins}) raises IndexError: {ex} - the ESS ratio of the untrimmed set "
                            f"comes out below the requested fraction after the second normalisation"}
        return {"reproduced": False, "what": f"ess={e!r} stops on the grid"}

    return Obligation(f"trim-fraction-w{'_'.join(map(str, wts)).replace('/', 'over')}-bins{bins}", harness, replay=replay, encodes=[tools.trim_weights],
                      bounds=f"concrete weights {list(map(str, wts))}, bins={bins}, requested fraction ANY double in (0,1) (a real constrained not to fall between the compared double and its successor); weights arithmetic is numpy's own binary64",
                      stubs=["np.percentile counted (at most `bins` evaluations)"], theory="QF_LRA")


# ------------------------------------------------------------------ volume_variation


def _rank_model(d):
    def matrix_rank(M):
        det = det_small(M)
        if bool(det == 0):
            return d - 1  # only '< d' is used by the code
        return d
    return matrix_rank


def _cond_model(d):
    """2-norm condition number of a symmetric PSD matrix: 1 for d=1 (inf if zero), lambda_max/lambda_min for d=2."""
    def cond(M):
        M = np.asarray(M, dtype=object)
        if d == 1:
            return float("inf") if bool(SymReal.lift(M[0, 0]) == 0) else 1.0
        t = SymReal.lift(M[0, 0]) + M[1, 1]
        det = det_small(M)
        disc = (t * t - det * 4)
        s = disc.sqrt()
        if bool(t - s == 0):
            return float("inf")
        return (t + s) / (t - s)
    return cond


def run_vv(x, w, d):
    proxy = NpProxy(object_constructors=True, overrides={})
    la = type("LA", (), {})()
    la.matrix_rank = _rank_model(d)
    la.cond = _cond_model(d)
    la.inv = inv_small
    la.LinAlgError = np.linalg.LinAlgError
    proxy._over["linalg"] = la
    with patched(tools, np=proxy):
        return tools.volume_variation(x, w)


def make_vv(d, n, kind, wgrid=None, Agrid=None):
    """kind: 'nonneg' | 'affine' | 'wscale'; wgrid: concrete weights (value grid) instead of symbolic ones"""

    def harness(ctx: PathCtx):
        xs = [[real(ctx, f"x{i}_{j}") for j in range(d)] for i in range(n)]
        if wgrid is None:
            w = reals(ctx, "w", n, lo=0, lo_strict=True)
        else:
            w = [real(ctx, f"w{i}", lo=wgrid[i], hi=wgrid[i]) for i in range(n)]
            w = [SymReal.const(Fraction(wgrid[i])) for i in range(n)]
        try:
            cv = scalar(run_vv(sarr(xs), sarr(w), d))
        except DomainError as e:
            ctx.fail("radicand-nonnegative", str(e))
            return None
        if not isinstance(cv, SymReal):
            cv = SymReal.lift(cv)
        ctx.check("cv>=0", le(0, cv))
        if kind == "affine":
            if d == 1:
                a = real(ctx, "a")
                ctx.assume(a.n != 0)
                b = real(ctx, "b")
                ys = [[a * xs[i][0] + b] for i in range(n)]
            elif Agrid is not None:
                A = [[SymReal.const(Fraction(Agrid[r][c])) for c in range(d)] for r in range(d)]
                bb = [real(ctx, f"b{r}") for r in range(d)]
                ys = [[_sum([A[r][c] * xs[i][c] for c in range(d)]) + bb[r] for r in range(d)] for i in range(n)]
            else:
                A = [[real(ctx, f"A{r}{c}") for c in range(d)] for r in range(d)]
                detA = A[0][0] * A[1][1] - A[0][1] * A[1][0]
                ctx.assume(detA.n != 0)
                bb = [real(ctx, f"b{r}") for r in range(d)]
                ys = [[_sum([A[r][c] * xs[i][c] for c in range(d)]) + bb[r] for r in range(d)] for i in range(n)]
            cv2 = SymReal.lift(scalar(run_vv(sarr(ys), sarr(w), d)))
            ctx.check("affine-invariant", eq(cv * cv, cv2 * cv2))
        if kind == "wscale":
            k = real(ctx, "k", lo=0, lo_strict=True)
            cv2 = SymReal.lift(scalar(run_vv(sarr(xs), sarr([k * x for x in w]), d)))
            ctx.check("weight-scale-invariant", eq(cv * cv, cv2 * cv2))
        return None

    def replay(m, label, v):
        x = np.array([[float(m[f"x{i}_{j}"]) for j in range(d)] for i in range(n)])
        w = np.array([float(m[f"w{i}"]) for i in range(n)])
        cv = tools.volume_variation(x, w)
        bad = False
        what = f"volume_variation({x.tolist()}, {w.tolist()}) = {cv}"
        if label in ("cv>=0", "radicand-nonnegative"):
            bad = not (cv >= 0)
        elif label == "weight-scale-invariant":
            cv2 = tools.volume_variation(x, float(m["k"]) * w)
            bad = not math.isclose(cv, cv2, rel_tol=1e-6, abs_tol=1e-9)
            what += f" vs scaled weights {cv2}"
        elif label == "affine-invariant":
            if d == 1:
                y = float(m["a"]) * x + float(m["b"])
            elif Agrid is not None:
                A = np.array(Agrid, dtype=float)
                y = x @ A.T + np.array([float(m.get(f"b{r}", 0.0)) for r in range(d)])
            else:
                A = np.array([[float(m[f"A{r}{c}"]) for c in range(d)] for r in range(d)])
                y = x @ A.T + np.array([float(m[f"b{r}"]) for r in range(d)])
            cv2 = tools.volume_variation(y, w)
            bad = not math.isclose(cv, cv2, rel_tol=1e-5, abs_tol=1e-8)
            what += f" vs affine image {cv2}"
        return {"reproduced": bool(bad), "signature": f"volume_variation:{label}:d{d}", "payload": {"x": x.tolist(), "w": w.tolist()},
                "what": what}

    return Obligation(f"vv-{kind}-d{d}-n{n}" + ("" if wgrid is None else "-w" + "_".join(map(str, wgrid))) + ("" if Agrid is None else "-Agrid"), harness,
                      replay=replay, encodes=[tools.volume_variation],
                      bounds=f"d={d}, n={n} samples, " + ("symbolic positive weights" if wgrid is None else f"weights on the grid point {wgrid}") + "; full-rank and regularised branches by forking on det==0; clip branches by forking",
                      stubs=["np.linalg.matrix_rank -> det==0 model", "np.linalg.inv -> closed form (d<=2)",
                             "np.sqrt -> fresh r>=0 with r*r == x"], theory="QF_NRA", timeout_ms=60000, max_paths=3000)


def make_vv_scaling(pts, wts, shear=False):
    """d=2 with *concrete* samples and weights and a symbolic, arbitrarily ill-conditioned linear map
    A = [[1, 0], [t, s]], s in [1e-6, 1e6] (t = 0 unless shear): the metric of the image equals the metric of the original.
    One or two real unknowns keep the conditioning questions (rank / condition-number tests inside the code) within nlsat's reach."""
    n = len(pts)
    X = [[Fraction(c) for c in p] for p in pts]
    W = [Fraction(w) for w in wts]

    def harness(ctx: PathCtx):
        sc = real(ctx, "s", lo=Fraction(1, 10 ** 6), hi=10 ** 6)
        t = real(ctx, "t", lo=-1000, hi=1000) if shear else SymReal.const(0)
        xs = [[SymReal.const(c) for c in row] for row in X]
        w = [SymReal.const(c) for c in W]
        try:
            cv = SymReal.lift(scalar(run_vv(sarr(xs), sarr(w), 2)))
            ys = [[xs[i][0], t * xs[i][0] + sc * xs[i][1]] for i in range(n)]
            cv2 = SymReal.lift(scalar(run_vv(sarr(ys), sarr(w), 2)))
        except DomainError as e:
            ctx.fail("radicand-nonnegative", str(e))
            return None
        ctx.check("cv>=0", z3.And(le(0, cv), le(0, cv2)))
        ctx.check("invariant-under-ill-conditioned-linear-maps", eq(cv * cv, cv2 * cv2))
        return None

    def replay(m, label, v):
        x = np.array([[float(c) for c in row] for row in X])
        w = np.array([float(c) for c in W])
        cands = [(float(m.get("s", 1.0)), float(m.get("t", 0.0)))] + [(sv, 0.0) for sv in (1e-6, 1e-5, 1e-4, 1e4, 1e5, 1e6)]
        cv = float(tools.volume_variation(x, w))
        for sv, tv in cands:
            A = np.array([[1.0, 0.0], [tv if shear else 0.0, sv]])
            cv2 = float(tools.volume_variation(x @ A.T, w))
            if not math.isclose(cv, cv2, rel_tol=1e-5, abs_tol=1e-8):
                return {"reproduced": True, "signature": "volume_variation:affine-invariant:d2-ill-conditioned", "payload": {"x": x.tolist(), "w": w.tolist(), "A": A.tolist(), "cv": cv, "cv_image": cv2},
                        "what": f"volume_variation of {x.tolist()} (weights {w.tolist()}) = {cv}, of its image under A={A.tolist()} (condition number {max(sv, 1 / sv):.3g}) = {cv2}"}
        return {"reproduced": False, "what": f"images under the model's map and under condition numbers up to 1e6 all give {cv}"}

    return Obligation(f"vv-scaling-d2-n{n}{'-shear' if shear else ''}", harness, replay=replay, encodes=[tools.volume_variation],
                      bounds=f"d=2, {n} concrete samples {pts} with weights {wts}; A = [[1,0],[t,s]], s in [1e-6,1e6]" + (", t in [-1000,1000]" if shear else ", t=0"),
                      stubs=["np.linalg.matrix_rank -> det==0 model", "np.linalg.cond -> exact 2-norm condition number (closed form, d=2)", "np.linalg.inv -> closed form (d<=2)",
                             "np.sqrt -> fresh r>=0 with r*r == x"], theory="QF_NRA", timeout_ms=60000, max_paths=3000)


def make_vv_scaling3(pts, wts, name):
    """d=3 with concrete samples and weights and the symbolic map A = diag(1, s, 1), s in [1e-6, 1e6] (one real unknown). With weights that
    vanish on all but three samples the weighted covariance has rank 2 and the code's regularised branch is taken."""
    n = len(pts)
    X = [[Fraction(c) for c in p] for p in pts]
    W = [Fraction(w) for w in wts]

    def harness(ctx: PathCtx):
        sc = real(ctx, "s", lo=Fraction(1, 10 ** 6), hi=10 ** 6)
        xs = [[SymReal.const(c) for c in row] for row in X]
        w = [SymReal.const(c) for c in W]
        try:
            cv = SymReal.lift(scalar(run_vv(sarr(xs), sarr(w), 3)))
            ys = [[xs[i][0], sc * xs[i][1], xs[i][2]] for i in range(n)]
            cv2 = SymReal.lift(scalar(run_vv(sarr(ys), sarr(w), 3)))
        except DomainError as e:
            ctx.fail("radicand-nonnegative", str(e))
            return None
        ctx.check("cv>=0", z3.And(le(0, cv), le(0, cv2)))
        ctx.check("invariant-under-ill-conditioned-linear-maps", eq(cv * cv, cv2 * cv2))
        return None

    def replay(m, label, v):
        x = np.array([[float(c) for c in row] for row in X])
        w = np.array([float(c) for c in W])
        cv = float(tools.volume_variation(x, w))
        rank = int(np.linalg.matrix_rank(np.cov(x.T, aweights=w)))
        worst = None
        for sv in [float(m.get("s", 1.0)), 1e-3, 1e3, 1e-6, 1e6]:
            A = np.diag([1.0, sv, 1.0])
            cv2 = float(tools.volume_variation(x @ A.T, w))
            if not math.isclose(cv, cv2, rel_tol=1e-5, abs_tol=1e-8) and (worst is None or abs(cv2 - cv) > abs(worst[1] - cv)):
                worst = (sv, cv2, A)
        if worst is not None:
            sv, cv2, A = worst
            sig = "volume_variation:affine-invariant:d3-rank-deficient-covariance" if rank < 3 else "volume_variation:affine-invariant:d3"
            return {"reproduced": True, "signature": sig, "payload": {"x": x.tolist(), "w": w.tolist(), "A": A.tolist(), "cv": cv, "cv_image": cv2, "rank_of_weighted_covariance": rank},
                    "what": f"volume_variation of {x.tolist()} (weights {w.tolist()}, weighted covariance of rank {rank}) = {cv}, of its image under diag(1, {sv:g}, 1) = {cv2}"}
        return {"reproduced": False, "what": f"images under diag(1, s, 1) for the model's s and s = 1e-6 .. 1e6 all give {cv}"}

    return Obligation(f"vv-scaling-d3-{name}", harness, replay=replay, encodes=[tools.volume_variation],
                      bounds=f"d=3, {n} concrete samples {pts} with weights {wts}; A = diag(1, s, 1), s in [1e-6, 1e6]",
                      stubs=["np.linalg.matrix_rank -> det==0 model", "np.linalg.inv -> cofactor formula (d=3)", "np.sqrt -> fresh r>=0 with r*r == x"],
                      theory="QF_NRA", timeout_ms=60000, max_paths=3000)


def obligations(tier):
    obs = [make_ess(2), make_ess(3), make_ess_rounding(2), make_ess_rounding(2, "uniform"), make_compute_ess(2), make_compute_ess(3),
           make_trim(2, 2, "9/10"), make_trim(3, 3, "9/10"), make_trim(3, 2, "1/2"), make_trim_fraction(("3/16", "5/8", "3/8"), 4), make_trim_fraction(("3/8", "1/8", "9/16", "5/16", "1/16"), 10), make_trim_fraction(("1/4", "1/2", "1/4"), 4),
           make_vv(1, 2, "nonneg"), make_vv(1, 2, "affine"), make_vv(1, 2, "wscale"),
           make_vv(1, 3, "affine", wgrid=(1, 1, 1)), make_vv(1, 3, "affine", wgrid=(1, 2, 5)), make_vv(1, 3, "wscale", wgrid=(3, 1, 2)),
           make_vv_scaling(((0, 0), (1, 0), (0, 1), (2, 3)), (1, 2, 3, 1)), make_vv_scaling(((0, 0), (1, 0), (0, 1), (2, 3)), (1, 2, 3, 1), shear=True),
           make_vv_scaling(((1, 1), (2, 1), (1, 3)), (1, 1, 1)),
           make_vv_scaling3(((0, 0, 0), (1, 0, 1), (0, 1, 0), (2, 3, 1), (1, 1, 1)), (1, 2, 3, 1, 2), "full-rank"),
           make_vv_scaling3(((0, 0, 0), (1, 0, 1), (0, 1, 0), (2, 3, 1), (1, 1, 1)), (1, 2, 3, 0, 0), "rank2-support")]
    # d=2 affine invariance (symbolic or ill-conditioned concrete A) is undecided by nlsat within the budget (unknown at 10 s/query):
    # not scheduled in the quick tier
    if tier == "thorough":
        obs += [make_ess(4), make_compute_ess(4), make_trim(4, 3, "9/10"), make_trim(3, 4, "99/100"), make_trim(4, 3, "1/2"),
                make_vv(1, 3, "nonneg"), make_vv(1, 4, "affine", wgrid=(1, 1, 1, 1)), make_vv(1, 4, "wscale", wgrid=(1, 2, 3, 4)),
                # (d=2 with symbolic samples - nonneg / wscale / affine with a concrete map - exhausts the obligation budget in nlsat: not
                #  scheduled; d=2 is covered on concrete samples with symbolic ill-conditioned maps by make_vv_scaling)
                make_vv_scaling(((0, 0), (3, 1), (-1, 2), (2, -2), (5, 5)), (1, 4, 2, 2, 1), shear=True), make_vv_scaling(((0, 1), (1, 0), (1, 1), (-1, -1)), (5, 1, 1, 1))]
    return obs
