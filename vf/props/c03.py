"""C03 - mutation kernels leave the tempered target invariant (detailed balance), involutive form."""
from __future__ import annotations

import math
from fractions import Fraction

import numpy as np
import z3

import tempest.mcmc as mcmc
from tempest.modes import ModeStatistics

from vf.engine.core import PathCtx, BoundExceeded
from vf.engine.harness import Obligation
from vf.engine.real import LogVal, SymReal, CONFIG
from vf.engine.arr import NpProxy, RandomStub, patched, patched_attr, sarr
from vf.engine.util import real, eq, le, lt, scalar
from vf.props.mcmc_common import sym_mode_stats

PROPERTY_ID = "C03"
ASSUMPTIONS = [
    "one kernel step at a fixed, symbolic step size sigma in (0,1) (sigma adaptation across steps is outside the claim: adaptive MCMC is only "
    "asymptotically exact); one walker (the step is a product kernel over walkers)",
    "involutive-MCMC form of detailed balance: the step is a deterministic map of (state, auxiliary draws); it must be an involution with unit "
    "Jacobian and the acceptance probability must be min(1, ratio of joint densities) - decided without integrals",
    "exact reals; dof nu concrete with (d+nu)/2 integer, beta on a rational grid (so that every power is a polynomial)",
    "a run of two iterations is compared with the composition of two one-iteration runs (frozen step sizes), which extends the one-step result to every iteration of a run; K > 1 obligations attach the single walker to a higher-numbered mode with the lower ones empty",
    "magnitudes: the Metropolis ratio of the RWM step is checked under a range abstraction of double exp/pow for log-likelihood differences up to 1e4",
    "the reverse-move witness assumes the pCN form u' = mu + sqrt(1-sigma^2)(u-mu) + sigma*sqrt(s)*L z (a re-parameterised but correct kernel would "
    "need a new witness)",
]


class Cb:
    """callbacks for one-walker runs: identity prior transform (records the proposals), scripted log-likelihood atoms."""

    def __init__(self, atoms):
        self.atoms = list(atoms)
        self.proposals = []
        self.k = 0

    def prior_transform(self, u):
        self.proposals.append([v for v in np.asarray(u, dtype=object).reshape(-1)])
        return np.asarray(u, dtype=object).copy()

    def log_likelihood(self, x):
        v = self.atoms[min(self.k, len(self.atoms) - 1)]
        self.k += 1
        return sarr([v]), None


def run_step(ctx, kernel, u, logl0, logl_prop, beta, ms, sigma, draws, periodic, reflective, max_calls, mode=0):
    cb = Cb([logl_prop])
    it = iter(draws)

    def provider(kind, rec):
        try:
            want, val = next(it)
        except StopIteration:
            raise BoundExceeded("second proposal draw (redraw)")
        if want != kind:
            raise BoundExceeded(f"draw order: expected {want}, code asked for {kind}")
        rec["given"] = val
        return val
    stub = RandomStub(provider, max_calls=max_calls)
    proxy = NpProxy(random=stub, exact_log=True, object_constructors=True,
                    overrides={"nan_to_num": lambda a, nan=0.0, **k: a})
    noadapt = lambda self, c, mean_accept: None
    sig = lambda self: sarr([sigma] * int(np.shape(ms.means)[0]))
    with patched(mcmc, np=proxy), patched_attr(mcmc.TPCNRunner, _adapt_sigma=noadapt, _initialize_sigmas=sig, _check_convergence=lambda self, acc: True), \
            patched_attr(mcmc.RWMRunner, _adapt_sigma=noadapt, _initialize_sigmas=sig, _check_convergence=lambda self, acc: True):
        out = mcmc.parallel_mcmc(u=sarr([u]), x=sarr([u]), logl=sarr([logl0]), blobs=None, assignments=np.array([mode], dtype=int),
                                 beta=float(beta), mode_stats=ms, log_likelihood=cb.log_likelihood, prior_transform=cb.prior_transform,
                                 n_steps=1, n_max=1, sample=kernel, periodic=periodic, reflective=reflective, verbose=False)
    return out, cb, stub


def replay_rwm_wrapped_step(bkind, beta, vals, ms, per, ref, label):
    """one real parallel_mcmc step (RWM, d=1, coordinate 0 periodic/reflective) with the model's innovation and a concrete likelihood that is
    neither 1-periodic nor mirror-symmetric: the point handed to the user's functions must be the folded proposal, and the move must be
    accepted iff urand < min(1, exp(beta (L(folded) - L(current))))."""
    from vf.engine.util import scripted_random
    u0, sg, z0, l00 = vals["u0"], vals["sigma"], vals["z0"], vals["L0_00"]
    ur = vals.get("urand", 0.5)
    seen = []
    ll = lambda x: -3.0 * x[:, 0] - 2.0 * x[:, 0] ** 2

    def like(x):
        x = np.asarray(x, dtype=float)
        return ll(x), None

    def prior(q):
        seen.append(np.array(q, dtype=float).copy())
        return np.array(q, dtype=float)
    u = np.array([[u0]])
    y = u0 + sg * l00 * z0
    folded = float(mcmc.apply_boundary_conditions(np.array([y]), per, ref)[0])
    noadapt = lambda self, c, mean_accept: None
    from vf.engine.arr import patched_attr
    rows = []
    # both sides of the acceptance threshold
    a_exp = min(1.0, math.exp(float(beta) * (float(ll(np.array([[folded]]))[0]) - float(ll(u)[0]))))
    for urv in (ur, 0.999 * a_exp, min(0.999999, 1.001 * a_exp)):
        seen.clear()
        with patched_attr(mcmc.RWMRunner, _adapt_sigma=noadapt, _initialize_sigmas=lambda self: np.array([sg]), _check_convergence=lambda self, acc: True), \
                scripted_random(randn=lambda *a: np.array([z0]), rand=lambda *a: np.array([urv]), random=lambda *a, **k: urv):
            out = mcmc.parallel_mcmc(u=u.copy(), x=u.copy(), logl=ll(u), blobs=None, assignments=np.zeros(1, dtype=int), beta=float(beta), mode_stats=ms,
                                     log_likelihood=like, prior_transform=prior, n_steps=1, n_max=1, sample="rwm", periodic=per, reflective=ref, verbose=False)
        u_new = float(np.asarray(out[0]).reshape(-1)[0])
        evaluated = [float(q.reshape(-1)[0]) for q in seen]
        accepted = abs(u_new - u0) > 0 or folded == u0
        rows.append({"urand": urv, "evaluated_points": evaluated, "u_after": u_new, "expected_alpha": a_exp, "accepted": accepted})
        if any(not (0.0 <= q <= 1.0) for q in evaluated):
            return {"reproduced": True, "signature": f"rwm:{bkind}:user-functions-called-outside-the-cube", "payload": rows[-1],
                    "what": f"rwm on a {bkind} coordinate: from u={u0!r} with sigma*L*z={sg * l00 * z0!r} the prior transform / likelihood were called at {evaluated} (outside [0,1]); the folded proposal is {folded!r}"}
        if 0.0 <= y <= 1.0 or folded != u0:
            want = urv < a_exp
            if accepted != want or (accepted and abs(u_new - folded) > 1e-12):
                return {"reproduced": True, "signature": f"rwm:{bkind}:accept-reject-not-the-tempered-ratio-at-the-folded-point", "payload": rows[-1],
                        "what": f"rwm on a {bkind} coordinate: from u={u0!r}, raw proposal {y!r} (folded {folded!r}), urand={urv!r}: expected acceptance probability {a_exp:.6f} at the folded point, "
                                f"the code {'accepted' if accepted else 'rejected'} and stored u={u_new!r}"}
    return {"reproduced": False, "what": f"rwm acceptance factor 0.0; full step from u={u0!r} evaluates the folded point and accepts with the tempered ratio: {rows}"}



def make_kernel(kernel, d, bkind, beta, nu=None, wraps=1, skip_ratio=False, K=1, mode=0):
    """bkind in interior|hard|periodic|reflective (coordinate 0). K modes, the walker attached to `mode` (the other modes are empty)."""
    beta = Fraction(beta)
    D = beta.denominator
    nu = nu if nu is not None else (3.0 if d == 1 else 2.0)
    kshape = Fraction(d + int(nu), 2)
    periodic = np.array([0]) if bkind == "periodic" else None
    reflective = np.array([0]) if bkind == "reflective" else None

    def harness(ctx: PathCtx):
        from vf.engine.real import CONFIG
        CONFIG["floor_range"] = (-wraps, wraps) if bkind in ("periodic", "reflective") else None
        try:
            return harness_body(ctx)
        finally:
            CONFIG["floor_range"] = None

    def harness_body(ctx: PathCtx):
        u = [real(ctx, f"u{j}", lo=0, hi=1, hi_strict=(bkind == "periodic" and j == 0)) for j in range(d)]
        ms = sym_mode_stats(ctx, d, K, nu=nu)
        sigma = real(ctx, "sigma", lo=0, lo_strict=True, hi=1, hi_strict=True)
        l0 = LogVal.atom("l_cur", D)
        l1 = LogVal.atom("l_prop", D)
        z = [real(ctx, f"z{j}") for j in range(d)]
        g = real(ctx, "g", lo=0, lo_strict=True)
        r1 = real(ctx, "urand", lo=0, hi=1, hi_strict=True)
        zarr = sarr(z)
        draws = ([("gamma", g)] if kernel == "tpcn" else []) + [("randn", zarr), ("rand", sarr([r1]))]
        try:
            out, cb, stub = run_step(ctx, kernel, u, l0, l1, beta, ms, sigma, draws, periodic, reflective, max_calls=len(draws), mode=mode)
        except BoundExceeded as e:
            if "integer part" in str(e):
                raise  # declared wrap-count cut
            if "draw order" in str(e):
                ctx.fail("proposal-consumes-gamma-then-normal-draws", str(e))
                return None
            # the code asked for a second proposal draw: the first proposal fell outside a hard bound and was re-drawn
            if bkind == "interior":
                return None  # interior obligation: moves that stay inside the cube only (stated cut)
            ctx.fail("out-of-bounds-proposals-are-rejected-not-redrawn", str(e))
            return None
        if bkind != "interior":
            ctx.ok("out-of-bounds-proposals-are-rejected-not-redrawn")
        up = cb.proposals[0]
        alpha = scalar(out[5])
        L = ms.chol_covariances[mode]
        mu = ms.means[mode]
        Lz = [L[0][0] * z[0]] if d == 1 else [L[0][0] * z[0], L[1][0] * z[0] + L[1][1] * z[1]]
        if kernel == "tpcn":
            y_spec = [mu[j] + (1.0 - sigma ** 2.0).sqrt() * (u[j] - mu[j]) + sigma * (1.0 / g).sqrt() * Lz[j] for j in range(d)]
        else:
            y_spec = [u[j] + sigma * Lz[j] for j in range(d)]
        hard = [j for j in range(d) if not (j == 0 and bkind in ("periodic", "reflective"))]
        discarded = all(a is b for a, b in zip(up, u))  # the code evaluated the current point instead of a proposal
        if discarded:
            same = all(a is b for a, b in zip(np.asarray(out[0], dtype=object).reshape(-1), u))
            ctx.check("discarded-proposal:state-unchanged-and-acceptance-probability-0",
                      z3.And(z3.BoolVal(bool(same)), eq(alpha, 0)))
            outside = [z3.Or(lt(y_spec[j], 0), lt(1, y_spec[j])) for j in hard]
            ctx.check("only-proposals-outside-a-hard-bound-are-discarded", z3.Or(*outside) if outside else z3.BoolVal(False))
            return None
        inside = [z3.And(le(0, up[j]), le(up[j], 1)) for j in range(d)]
        ctx.check("evaluated-proposals-are-inside-the-cube", z3.And(*inside))
        if bkind in ("interior", "hard"):
            r0 = ctx.check("proposal-is-the-documented-move(mu+sqrt(1-s^2)(u-mu)+s*sqrt(1/g)*L*z | u+s*L*z)", z3.And(*[eq(up[j], y_spec[j]) for j in range(d)]))
            if r0.status != "holds":
                return None  # the witness construction below presupposes this form
        accepted = all(a is b for a, b in zip(np.asarray(out[0], dtype=object).reshape(-1), up))
        # ---- the reverse move: same gamma value, witness normal draw
        if kernel == "tpcn":
            a = (1.0 - sigma ** 2.0).sqrt()
            rs = (1.0 / g).sqrt()
            diff = [u[j] - mu[j] for j in range(d)]
            if d == 1:
                w = [diff[0] / L[0][0]]
            else:
                w0 = diff[0] / L[0][0]
                w = [w0, (diff[1] - L[1][0] * w0) / L[1][1]]
            zrev = [sigma / rs * w[j] - a * z[j] for j in range(d)]
        else:
            zrev = None  # decided below (+-z)
        cands = [zrev] if zrev is not None else [[-v for v in z], list(z)]
        if zrev is None and d == 2 and bkind == "reflective":
            # a move that is reflected once on coordinate 0 is undone by the noise -R*delta, R = diag(-1, 1):  z' = -L^-1 R L z
            cands.append([z[0], -z[1] - (L[1][0] * z[0] * 2) / L[1][1]])
        landed = []
        rev_info = []
        if CONFIG["floor_range"] is not None:
            CONFIG["floor_range"] = (-wraps - 1, wraps + 1)  # the way back may cross one more period at the closed end points
        for zc in cands:
            r2 = real(ctx, "urand_rev", lo=0, hi=1, hi_strict=True)
            draws2 = ([("gamma", g)] if kernel == "tpcn" else []) + [("randn", sarr(zc)), ("rand", sarr([r2]))]
            try:
                out2, cb2, stub2 = run_step(ctx, kernel, up, l1, l0, beta, ms, sigma, draws2, periodic, reflective, max_calls=len(draws2), mode=mode)
            except BoundExceeded:
                landed.append(z3.BoolVal(False))
                rev_info.append(None)
                continue
            upp = cb2.proposals[0]
            landed.append(z3.And(*[eq(upp[j], u[j]) for j in range(d)]))
            rev_info.append((out2, stub2, zc))
        ctx.check("reverse-move-with-the-witness-draws-returns-to-the-start(involution)", z3.Or(*landed))
        # pick the witness that works on this path (rwm: parity decides)
        pick = None
        for cond, info in zip(landed, rev_info):
            if info is not None and ctx._query(z3.Not(cond))[0] == "unsat":
                pick = info
                break
        if pick is None:
            return None
        out2, stub2, zc = pick
        # ---- ratio of joint densities of (state, auxiliaries)
        spec = (l1 - l0) * beta  # log pi(u')/pi(u)
        ratio = spec.exp()
        nz = lambda v: sum([x * x for x in v[1:]], v[0] * v[0])
        if kernel == "tpcn":
            gf = [c for c in stub.calls if c["kind"] == "gamma"][0]
            gr = [c for c in stub2.calls if c["kind"] == "gamma"][0]
            ctx.check("gamma-shape-is-(d+nu)/2-in-both-directions", z3.And(eq(gf["shape"], kshape), eq(gr["shape"], kshape)))
            th_f, th_r = SymReal.lift(scalar(gf["scale"])), SymReal.lift(scalar(gr["scale"]))
            # exponent of p(g|u')phi(z') / p(g|u)phi(z):  -g(1/th' - 1/th) - (|z'|^2-|z|^2)/2  must vanish (energy identity)
            energy = g * (1 / th_r - 1 / th_f) + (nz(zc) - nz(z)) / 2
            ctx.check("energy-identity(gamma*normal densities balance)", eq(energy, 0))
            if not skip_ratio:
                ratio = ratio * (th_f / th_r) ** int(kshape)
        else:
            ctx.check("normal-density-of-the-witness-equals-forward", eq(nz(zc), nz(z)))
        if not skip_ratio:
            ctx.check("acceptance-probability==min(1,joint-density-ratio)",
                      z3.Or(z3.And(le(ratio, 1), eq(alpha, ratio)), z3.And(le(1, ratio), eq(alpha, 1))))
            ctx.check("accept-iff-urand<alpha", ((r1 < alpha).z) == z3.BoolVal(bool(accepted)))
        # unit Jacobian: the forward map (u,z)->(u',z') is affine; for d=1 decide |det| == 1 through finite differences on the real code
        return None

    def replay(m, label, v):
        if K > 1:
            return replay_multimode(kernel, float(beta), nu, K, mode, m, label)
        if kernel == "rwm" and d == 2 and bkind == "reflective":
            return replay_rwm_reflective_2d(m, label)
        return replay_kernel(kernel, d, bkind, float(beta), nu, m, label)

    name = f"{kernel}-{bkind}-d{d}-beta{beta}" + (f"-nu{int(nu)}" if skip_ratio else "") + (f"-K{K}mode{mode}" if K > 1 else "")
    return Obligation(name, harness, replay=replay,
                      encodes=[mcmc.parallel_mcmc, mcmc.BaseMCMCRunner.run, mcmc.TPCNRunner._propose, mcmc.TPCNRunner._compute_acceptance_factor,
                               mcmc.RWMRunner._propose, mcmc.apply_boundary_conditions, mcmc.check_bounds],
                      bounds=f"d={d}, K={K} (walker on mode {mode}), one walker, one step, boundary kind {bkind} on coordinate 0, beta={beta}, nu={nu}, symbolic sigma in (0,1), "
                             "symbolic mode (mu, Cholesky factor), all draws symbolic; a second proposal draw is reported, not followed; wrap count |k| <= " + str(wraps),
                      stubs=["np.random.gamma/randn/rand -> symbolic draws with recorded call parameters", "np.log/np.exp -> exact log-domain algebra",
                             "_adapt_sigma -> no-op, _check_convergence -> True (one iteration), _initialize_sigmas -> symbolic sigma", "np.sqrt -> fresh r>=0 with r*r==x (cached per radicand)"],
                      theory="QF_NRA", timeout_ms=8000, max_paths=4000, allow_domain="division by zero paths are outside the declared positive domains",
                      allow_bound=(f"unwrapped proposals with integer part outside [-{wraps},{wraps}] are cut" if bkind in ("periodic", "reflective") else None))


def make_propose_only(nu, d=1):
    """tpCN proposal alone (TPCNRunner._propose under injected randomness) for a large degrees-of-freedom value, where the
    Student-t power of the acceptance ratio is out of reach: the proposal must still be the scale-mixture draw
    (gamma then normal), with shape (d+nu)/2 and scale 2/(nu+delta), and satisfy involution + energy identity."""
    kshape = Fraction(d + int(nu), 2)

    def propose(ctx, u, ms, sigma, g, z):
        calls = []

        def provider(kind, rec):
            calls.append(rec)
            if kind == "gamma":
                return g
            if kind == "randn":
                return sarr(z)
            raise BoundExceeded(f"draw order: unexpected {kind}")
        stub = RandomStub(provider, max_calls=2)
        proxy = NpProxy(random=stub, exact_log=True, object_constructors=True)
        sig = lambda self: sarr([sigma])
        with patched(mcmc, np=proxy), patched_attr(mcmc.TPCNRunner, _initialize_sigmas=sig):
            runner = mcmc.TPCNRunner(sarr([u]), sarr([u]), sarr([SymReal.const(0)]), None, np.zeros(1, dtype=int), 1.0, ms,
                                     lambda x: (None, None), lambda q: q, None, 1, 1, None, None, False)
            up = runner._propose(0)
        return [v for v in np.asarray(up, dtype=object).reshape(-1)], calls

    def harness(ctx: PathCtx):
        u = [real(ctx, f"u{j}", lo=0, hi=1) for j in range(d)]
        ms = sym_mode_stats(ctx, d, 1, nu=float(nu))
        sigma = real(ctx, "sigma", lo=0, lo_strict=True, hi=1, hi_strict=True)
        z = [real(ctx, f"z{j}") for j in range(d)]
        g = real(ctx, "g", lo=0, lo_strict=True)
        up, calls = propose(ctx, u, ms, sigma, g, z)
        kinds = [c["kind"] for c in calls]
        ctx.check("proposal-consumes-gamma-then-normal-draws", z3.BoolVal(kinds == ["gamma", "randn"]), detail=kinds)
        if kinds != ["gamma", "randn"]:
            return None
        L, mu = ms.chol_covariances[0], ms.means[0]
        a = (1.0 - sigma ** 2.0).sqrt()
        rs = (1.0 / g).sqrt()
        w = [(u[0] - mu[0]) / L[0][0]]
        zrev = [sigma / rs * w[0] - a * z[0]]
        upp, calls2 = propose(ctx, up, ms, sigma, g, zrev)
        ctx.check("reverse-move-with-the-witness-draws-returns-to-the-start(involution)", eq(upp[0], u[0]))
        gf, gr = calls[0], calls2[0]
        ctx.check("gamma-shape-is-(d+nu)/2-in-both-directions", z3.And(eq(gf["shape"], kshape), eq(gr["shape"], kshape)))
        th_f, th_r = SymReal.lift(scalar(gf["scale"])), SymReal.lift(scalar(gr["scale"]))
        dlt = w[0] * w[0]
        ctx.check("gamma-scale-is-2/(nu+delta)", eq(th_f * (dlt + nu), 2))
        energy = g * (1 / th_r - 1 / th_f) + (zrev[0] * zrev[0] - z[0] * z[0]) / 2
        ctx.check("energy-identity(gamma*normal densities balance)", eq(energy, 0))
        return None

    def replay(m, label, v):
        from vf.engine.util import scripted_random
        vals = {k: float(x) for k, x in m.items() if not isinstance(x, (bool, str))}
        u0, mu0, l00, sg, g, z0 = vals.get("u0", 0.3), vals.get("mu0_0", 0.5), vals.get("L0_00", 0.2), vals.get("sigma", 0.5), vals.get("g", 1.3), vals.get("z0", 0.4)
        ms = ModeStatistics(np.array([[mu0]]), np.array([[[l00 * l00]]]), np.array([float(nu)]))
        runner = mcmc.TPCNRunner(np.array([[u0]]), np.array([[u0]]), np.zeros(1), None, np.zeros(1, dtype=int), 1.0, ms, lambda x: (np.zeros(1), None),
                                 lambda q: q, None, 1, 1, None, None, False)
        runner.sigmas = np.array([sg])
        seen = []

        def gamma_spy(shape=None, scale=1.0, size=None):
            seen.append(("gamma", float(shape), float(scale)))
            return g

        def randn_spy(*a):
            seen.append(("randn",))
            return np.array([z0])
        with scripted_random(gamma=gamma_spy, randn=randn_spy):
            up = runner._propose(0)
        dlt = ((u0 - mu0) / l00) ** 2
        expect = mu0 + math.sqrt(1 - sg * sg) * (u0 - mu0) + sg * math.sqrt(1.0 / g) * l00 * z0
        bad = [s_[0] for s_ in seen] != ["gamma", "randn"] or abs(seen[0][1] - (1 + nu) / 2) > 1e-9 or abs(seen[0][2] - 2.0 / (nu + dlt)) > 1e-12 \
            or abs(float(up[0]) - expect) > 1e-9
        return {"reproduced": bool(bad), "signature": f"tpcn:proposal-not-the-scale-mixture:nu={nu}", "payload": {"draws": seen, "proposal": float(up[0]), "expected": expect},
                "what": f"TPCNRunner._propose with nu={nu}: draws consumed {seen}, proposal {float(up[0]):.6g} vs scale-mixture pCN value {expect:.6g} for gamma draw {g}"}

    return Obligation(f"tpcn-proposal-nu{int(nu)}", harness, replay=replay, encodes=[mcmc.TPCNRunner._propose],
                      bounds=f"d=1, nu={nu} (acceptance power (d+nu)/2 = {kshape} is not encoded: proposal obligations only)", theory="QF_NRA", timeout_ms=8000,
                      stubs=["np.random.gamma/randn -> symbolic draws", "_initialize_sigmas -> symbolic sigma"],
                      allow_domain="division by zero paths are outside the declared positive domains")


def make_modestats(d):
    """the real ModeStatistics.__init__: the precomputed inverse and Cholesky factor must belong to the same scale matrix
    (the proposal noise uses the factor, the gamma scale and the Student-t correction use the inverse)."""
    import tempest.modes as modes_mod
    from vf.engine.arr import inv_small

    def chol_small(M):
        M = np.asarray(M, dtype=object)
        if M.ndim == 3:
            return np.stack([chol_small(M[i]) for i in range(M.shape[0])]).view(type(sarr([0])))
        if M.shape[0] == 1:
            return sarr([[SymReal.lift(M[0, 0]).sqrt()]])
        a = SymReal.lift(M[0, 0]).sqrt()
        b = SymReal.lift(M[1, 0]) / a
        e = (SymReal.lift(M[1, 1]) - b * b).sqrt()
        return sarr([[a, SymReal.const(0)], [b, e]])

    def harness(ctx: PathCtx):
        if d == 1:
            c = real(ctx, "c00", lo=0, lo_strict=True)
            C = [[c]]
        else:
            a, b, e = real(ctx, "c00", lo=0, lo_strict=True), real(ctx, "c10"), real(ctx, "c11", lo=0, lo_strict=True)
            ctx.assume((a * e - b * b).n > 0)
            C = [[a, b], [b, e]]
        la = type("LA", (), {"inv": staticmethod(inv_small), "cholesky": staticmethod(chol_small), "LinAlgError": np.linalg.LinAlgError})()
        with patched(modes_mod, np=NpProxy(object_constructors=True, overrides={"linalg": la})):
            ms = ModeStatistics(sarr([[real(ctx, f"m{j}") for j in range(d)]]), sarr([C]), np.array([3.0]))
        Lc, Ic = ms.chol_covariances[0], ms.inv_covariances[0]
        conds = []
        for i in range(d):
            for j in range(d):
                llt = sum([Lc[i][k] * Lc[j][k] for k in range(1, d)], Lc[i][0] * Lc[j][0])
                conds.append(eq(llt, C[i][j]))
                ic = sum([Ic[i][k] * C[k][j] for k in range(1, d)], Ic[i][0] * C[0][j])
                conds.append(eq(ic, 1 if i == j else 0))
        ctx.check("cholesky-factor-and-inverse-belong-to-the-given-scale-matrix", z3.And(*conds))
        return None

    def replay(m, label, v):
        rng = np.random.RandomState(0)
        worst = 0.0
        for cond_target in (1.0, 1e4, 1e8, 1e10):
            ev = np.array([1.0, 1.0 / cond_target])[:d] if d > 1 else np.array([float(m.get("c00", 1.0))])
            Q = np.linalg.qr(rng.randn(d, d))[0]
            C = (Q * ev) @ Q.T
            ms = ModeStatistics(np.zeros((1, d)), C.reshape(1, d, d), np.array([3.0]))
            L = ms.chol_covariances[0]
            worst = max(worst, float(np.max(np.abs(ms.inv_covariances[0] @ (L @ L.T) - np.eye(d)))))
        return {"reproduced": worst > 1e-4, "signature": "ModeStatistics:factor-and-inverse-inconsistent", "payload": {"max_abs_residual": worst},
                "what": f"ModeStatistics: inv_covariances @ (chol chol^T) differs from the identity by {worst:.3g} for scale matrices with condition number up to 1e10"}

    return Obligation(f"modestats-consistent-d{d}", harness, replay=replay, encodes=[ModeStatistics.__init__],
                      bounds=f"d={d}, symbolic SPD scale matrix", stubs=["np.linalg.inv/cholesky -> closed forms (d<=2)"], theory="QF_NRA", timeout_ms=8000)


# ---------------------------------------------------------------------- concrete replays


def run_steps(ctx, kernel, u, logl0, atoms, beta, ms, sigmas, draws, assignment, n_iter):
    """n_iter iterations of the real runner loop (frozen step sizes), one walker attached to mode `assignment`."""
    cb = Cb(atoms)
    it = iter(draws)

    def provider(kind, rec):
        try:
            want, val = next(it)
        except StopIteration:
            raise BoundExceeded("more draws than iterations provide")
        if want != kind:
            raise BoundExceeded(f"draw order: expected {want}, code asked for {kind}")
        return val
    stub = RandomStub(provider, max_calls=len(draws))
    proxy = NpProxy(random=stub, exact_log=True, object_constructors=True, overrides={"nan_to_num": lambda a, nan=0.0, **k: a})
    noadapt = lambda self, c, mean_accept: None
    sig = lambda self: sarr(list(sigmas))
    conv = lambda self, acc: self.iteration >= n_iter
    with patched(mcmc, np=proxy), patched_attr(mcmc.TPCNRunner, _adapt_sigma=noadapt, _initialize_sigmas=sig, _check_convergence=conv), \
            patched_attr(mcmc.RWMRunner, _adapt_sigma=noadapt, _initialize_sigmas=sig, _check_convergence=conv):
        out = mcmc.parallel_mcmc(u=sarr([u]), x=sarr([u]), logl=sarr([logl0]), blobs=None, assignments=np.array([assignment], dtype=int),
                                 beta=float(beta), mode_stats=ms, log_likelihood=cb.log_likelihood, prior_transform=cb.prior_transform,
                                 n_steps=n_iter, n_max=n_iter, sample=kernel, periodic=None, reflective=None, verbose=False)
    return out, cb, stub


def make_composition(kernel, K, assignment, beta=Fraction(1, 2), nu=3.0):
    """A run of two iterations must be the composition of two one-iteration runs (same draws, same mode, same step size):
    nothing computed in iteration 1 (caches, re-attached modes, counters) may influence iteration 2 except through the walker's
    state. Together with the one-step obligations this extends detailed balance to every iteration of a run with frozen step sizes."""
    beta = Fraction(beta)
    D = beta.denominator

    def harness(ctx: PathCtx):
        u = [real(ctx, "u0", lo=0, hi=1)]
        ms = sym_mode_stats(ctx, 1, K, nu=nu)
        sigmas = [real(ctx, f"sigma{k}", lo=0, lo_strict=True, hi=1, hi_strict=True) for k in range(K)]
        l0, l1, l2 = LogVal.atom("l_cur", D), LogVal.atom("l_prop1", D), LogVal.atom("l_prop2", D)
        per_it = []
        for i in (1, 2):
            z = real(ctx, f"z_{i}")
            g = real(ctx, f"g_{i}", lo=0, lo_strict=True)
            r = real(ctx, f"urand_{i}", lo=0, hi=1, hi_strict=True)
            per_it.append(([("gamma", g)] if kernel == "tpcn" else []) + [("randn", sarr([z])), ("rand", sarr([r]))])
        try:
            outA, cbA, stA = run_steps(ctx, kernel, u, l0, [l1, l2], beta, ms, sigmas, per_it[0] + per_it[1], assignment, 2)
            out1, cb1, st1 = run_steps(ctx, kernel, u, l0, [l1], beta, ms, sigmas, per_it[0], assignment, 1)
            u_mid = [v for v in np.asarray(out1[0], dtype=object).reshape(-1)]
            l_mid = np.asarray(out1[2], dtype=object).reshape(-1)[0]
            out2, cb2, st2 = run_steps(ctx, kernel, u_mid, l_mid, [l2], beta, ms, sigmas, per_it[1], assignment, 1)
        except BoundExceeded as e:
            ctx.fail("each-iteration-consumes-one-set-of-draws", str(e))
            return None
        ctx.ok("each-iteration-consumes-one-set-of-draws")
        ctx.check("two-proposals-evaluated", z3.BoolVal(len(cbA.proposals) == 2 and len(cb2.proposals) == 1))
        if len(cbA.proposals) != 2:
            return None
        ctx.check("iteration-2-proposal==one-step-proposal-from-the-state-after-iteration-1", eq(cbA.proposals[1][0], cb2.proposals[0][0]))
        if kernel == "tpcn":
            gA = [c for c in stA.calls if c["kind"] == "gamma"]
            gB = [c for c in st2.calls if c["kind"] == "gamma"]
            ctx.check("iteration-2-gamma-parameters==one-step-parameters",
                      z3.And(eq(gA[1]["shape"], gB[0]["shape"]), eq(SymReal.lift(scalar(gA[1]["scale"])), SymReal.lift(scalar(gB[0]["scale"])))))
        ctx.check("iteration-2-acceptance-probability==one-step-value", eq(scalar(outA[5]), scalar(out2[5])))
        uA = np.asarray(outA[0], dtype=object).reshape(-1)[0]
        uB = np.asarray(out2[0], dtype=object).reshape(-1)[0]
        lA = np.asarray(outA[2], dtype=object).reshape(-1)[0]
        lB = np.asarray(out2[2], dtype=object).reshape(-1)[0]
        ctx.check("final-state==composition-of-two-one-step-runs", z3.And(eq(uA, uB), eq(lA.exp(), lB.exp())))
        ctx.check("likelihood-calls-counted-once-per-iteration", z3.BoolVal(int(outA[7]) == int(out1[7]) + int(out2[7])))
        return None

    def replay(m, label, v):
        return replay_composition(kernel, K, assignment, float(beta), nu, m, label)

    return Obligation(f"{kernel}-two-iterations-K{K}-mode{assignment}", harness, replay=replay,
                      encodes=[mcmc.parallel_mcmc, mcmc.BaseMCMCRunner.run, mcmc.TPCNRunner._propose, mcmc.TPCNRunner._compute_acceptance_factor,
                               mcmc.RWMRunner._propose, mcmc.check_bounds],
                      bounds=f"d=1, K={K} symbolic modes, one walker attached to mode {assignment}, two iterations, hard bounds, beta={beta}, nu={nu}, "
                             "symbolic frozen step sizes, all draws symbolic",
                      stubs=["np.random.gamma/randn/rand -> symbolic draws", "np.log/np.exp -> exact log-domain algebra",
                             "_adapt_sigma -> no-op (frozen step sizes), _check_convergence -> stop after the stated number of iterations"],
                      theory="QF_NRA", timeout_ms=8000, max_paths=4000, allow_domain="division by zero paths are outside the declared positive domains")


def replay_composition(kernel, K, assignment, beta, nu, m, label):
    """float replay: real runner, two iterations vs two one-iteration runs, scripted draws (the model's, then a fixed family)."""
    from vf.engine.util import scripted_random, seq_provider
    vals = {k: float(x) for k, x in m.items() if not k.startswith("obs:") and not isinstance(x, (bool, str))}
    D = Fraction(beta).limit_denominator(64).denominator

    def scenario(i):
        if i == 0:
            try:
                return dict(u0=vals["u0"], mu=[vals[f"mu{k}_0"] for k in range(K)], L=[vals[f"L{k}_00"] for k in range(K)],
                            sg=[vals[f"sigma{k}"] for k in range(K)], z=[vals["z_1"], vals["z_2"]], g=[vals.get("g_1", 1.0), vals.get("g_2", 1.0)],
                            r=[vals["urand_1"], vals["urand_2"]],
                            l=[D * math.log(vals["expatom_l_cur"]), D * math.log(vals["expatom_l_prop1"]), D * math.log(vals["expatom_l_prop2"])])
            except Exception:
                return None
        rng = np.random.RandomState(100 + i)
        mu = sorted(rng.uniform(0.2, 0.8, K).tolist())
        return dict(u0=float(rng.uniform(0.3, 0.7)), mu=mu, L=rng.uniform(0.05, 0.4, K).tolist(), sg=rng.uniform(0.3, 0.9, K).tolist(),
                    z=rng.randn(2).tolist(), g=rng.gamma(2.0, 0.5, 2).tolist(), r=[1e-9, 1e-9], l=[0.0, 0.3, 0.1])

    def run(sc, start, l_start, ls, idx, n_iter):
        ms = ModeStatistics(np.array(sc["mu"]).reshape(K, 1), (np.array(sc["L"]) ** 2).reshape(K, 1, 1), np.full(K, float(nu)))
        cls = mcmc.TPCNRunner if kernel == "tpcn" else mcmc.RWMRunner
        props, gam = [], []
        lit = iter(ls)

        def pt(q):
            props.append(float(np.asarray(q, dtype=float).ravel()[0]))
            return q

        def gamma_spy(shape=None, scale=1.0, size=None, _g=iter([sc["g"][j] for j in idx])):
            gam.append((float(shape), float(np.asarray(scale).ravel()[0])))
            return next(_g)
        with scripted_random(gamma=gamma_spy, randn=seq_provider([np.array([sc["z"][j]]) for j in idx]), rand=seq_provider([np.array([sc["r"][j]]) for j in idx])), \
                patched_attr(cls, _initialize_sigmas=lambda self: np.array(sc["sg"]), _adapt_sigma=lambda self, c, a_: None,
                             _check_convergence=lambda self, acc: self.iteration >= n_iter):
            out = mcmc.parallel_mcmc(u=np.array([[start]]), x=np.array([[start]]), logl=np.array([l_start]), blobs=None,
                                     assignments=np.array([assignment], dtype=int), beta=beta, mode_stats=ms,
                                     log_likelihood=lambda x: (np.array([next(lit)]), None), prior_transform=pt, n_steps=n_iter, n_max=n_iter,
                                     sample=kernel, verbose=False)
        return float(out[0][0, 0]), float(out[2][0]), float(out[5]), props, gam, int(out[7])

    worst = None
    for i in range(12):
        sc = scenario(i)
        if sc is None:
            continue
        try:
            uA, lA, aA, pA, gA, cA = run(sc, sc["u0"], sc["l"][0], sc["l"][1:], [0, 1], 2)
            u1, l1_, a1, p1, g1, c1 = run(sc, sc["u0"], sc["l"][0], sc["l"][1:2], [0], 1)
            u2, l2_, a2, p2, g2, c2 = run(sc, u1, l1_, sc["l"][2:], [1], 1)
        except Exception as e:
            worst = (float("inf"), i, f"raised {type(e).__name__}: {e}", sc)
            break
        err = max(abs(uA - u2), abs(lA - l2_), abs(aA - a2), abs(pA[1] - p2[0]) if len(pA) == 2 and p2 else float("inf"),
                  (abs(gA[1][1] - g2[0][1]) if kernel == "tpcn" and len(gA) == 2 and g2 else 0.0), float(cA != c1 + c2))
        if worst is None or err > worst[0]:
            worst = (err, i, f"two-iteration run: proposal {pA[1:]} gamma {gA[1:]} alpha {aA} final {uA}; composed one-step runs: proposal {p2} gamma {g2} alpha {a2} final {u2}", sc)
    err, i, txt, sc = worst
    return {"reproduced": bool(err > 1e-9), "signature": f"{kernel}:iteration-2-differs-from-a-fresh-step:K{K}",
            "payload": {"scenario": ("solver model" if i == 0 else f"family member {i}"), "inputs": sc, "max_abs_difference": err},
            "what": f"{kernel}, K={K}, walker on mode {assignment}: a run of two iterations is not the composition of two one-iteration runs with the same draws "
                    f"({txt}; max difference {err:.3g}) ({label})"}


def replay_rwm_reflective_2d(m, label):
    """exact check of proposal symmetry on the folded space: coordinate 0 reflective on [0,1], coordinate 1 free; the density of
    proposing v from u is the sum of the Gaussian noise density over all mirror images of v. RWM accepts with min(1, pi(v)/pi(u)),
    which is only correct if q(u -> v) == q(v -> u)."""
    vals = {k: float(x) for k, x in m.items() if not k.startswith("obs:") and not isinstance(x, (bool, str))}
    cands = []
    try:
        cands.append((vals["L0_00"], vals["L0_10"], vals["L0_11"], vals["sigma"], vals["u0"], vals["u1"], vals["z0"], vals["z1"]))
    except Exception:
        pass
    cands += [(0.3, 0.25, 0.2, 0.8, 0.1, 0.5, -1.2, 0.7), (0.5, -0.4, 0.3, 0.5, 0.9, 0.6, 0.9, -0.4)]
    worst = None
    for (a, b, e, sg, u0, u1, z0, z1) in cands:
        if not (a > 0 and e > 0 and 0 < sg):
            continue
        L = np.array([[a, 0.0], [b, e]])
        S = sg * sg * (L @ L.T)
        Si = np.linalg.inv(S)
        u = np.array([u0, u1])
        y = u + sg * (L @ np.array([z0, z1]))
        v = np.asarray(mcmc.apply_boundary_conditions(y.copy(), None, np.array([0])), dtype=float)  # the real fold
        if not (0.0 <= v[1] <= 1.0 and 0.0 <= u[1] <= 1.0 and 0.0 <= u[0] <= 1.0) or abs(y[0] - v[0]) < 1e-15:
            continue  # only moves between points of the cube that were actually reflected

        def q(p, t):
            tot = 0.0
            for k in range(-6, 7):
                for sgn in (1.0, -1.0):
                    img = np.array([sgn * t[0] + 2 * k, t[1]])
                    dlt = img - p
                    tot += math.exp(-0.5 * dlt @ Si @ dlt)
            return tot
        f, r = q(u, v), q(v, u)
        rel = abs(f - r) / max(f, r, 1e-300)
        if worst is None or rel > worst[0]:
            worst = (rel, L.tolist(), sg, u.tolist(), v.tolist(), f, r)
    if worst is None:
        return {"reproduced": False, "what": "model incomplete"}
    rel, L, sg, u, v, f, r = worst
    return {"reproduced": bool(rel > 1e-6 and abs(L[1][0]) > 1e-12), "signature": "rwm:reflective:correlated-proposal-not-symmetric-under-the-fold",
            "payload": {"chol_factor": L, "sigma": sg, "u": u, "v": v, "q(u->v)": f, "q(v->u)": r},
            "what": f"RWM with coordinate 0 reflective and a correlated scale matrix (Cholesky factor {L}, sigma {sg}): the folded proposal density from {u} to {v} "
                    f"is {f:.6g} (unnormalised, summed over mirror images) but {r:.6g} in the opposite direction; the acceptance min(1, pi'/pi) assumes they are equal ({label})"}


def replay_multimode(kernel, beta, nu, K, mode, m, label):
    """float replay for K > 1: the acceptance probability of the real step (walker on `mode`, other modes empty) against
    min(1, joint-density ratio) computed with the walker's own mode, on the model's point and on a fixed family."""
    from vf.engine.util import scripted_random
    vals = {k: float(v) for k, v in m.items() if not k.startswith("obs:") and not isinstance(v, (bool, str))}
    D = Fraction(beta).limit_denominator(64).denominator
    worst = None
    for i in range(8):
        rng = np.random.RandomState(50 + i)
        if i == 0:
            try:
                mus = [vals[f"mu{k}_0"] for k in range(K)]
                Ls = [vals[f"L{k}_00"] for k in range(K)]
                u0, sg, g, z0 = vals["u0"], vals["sigma"], vals.get("g", 1.0), vals["z0"]
                lc, lp = D * math.log(vals["expatom_l_cur"]), D * math.log(vals["expatom_l_prop"])
            except Exception:
                continue
        else:
            mus = rng.uniform(0.2, 0.8, K).tolist()
            Ls = (rng.uniform(0.05, 0.5, K) * np.array([1.0, 4.0, 0.3][:K])).tolist()
            u0, sg, g, z0 = float(rng.uniform(0.3, 0.7)), float(rng.uniform(0.3, 0.9)), float(rng.gamma(2.0, 0.5)), float(rng.randn() * 0.3)
            lc, lp = 0.0, 0.2
        ms = ModeStatistics(np.array(mus).reshape(K, 1), (np.array(Ls) ** 2).reshape(K, 1, 1), np.full(K, float(nu)))
        cls = mcmc.TPCNRunner if kernel == "tpcn" else mcmc.RWMRunner
        gam, seen = [], []

        def gamma_spy(shape=None, scale=1.0, size=None):
            gam.append((float(shape), float(np.asarray(scale).ravel()[0])))
            return g

        def pt(q):
            seen.append(float(np.asarray(q).ravel()[0]))
            return q
        try:
            with scripted_random(gamma=gamma_spy, randn=lambda *a: np.array([z0]), rand=lambda *a: np.array([0.5])), \
                    patched_attr(cls, _initialize_sigmas=lambda self: np.full(K, sg), _adapt_sigma=lambda self, c, a_: None, _check_convergence=lambda self, acc: True):
                out = mcmc.parallel_mcmc(u=np.array([[u0]]), x=np.array([[u0]]), logl=np.array([lc]), blobs=None, assignments=np.array([mode]), beta=beta,
                                         mode_stats=ms, log_likelihood=lambda x: (np.array([lp]), None), prior_transform=pt, n_steps=1, n_max=1, sample=kernel, verbose=False)
        except Exception as e:
            return {"reproduced": True, "signature": f"{kernel}:K{K}:raised", "payload": {"error": repr(e)}, "what": f"{kernel} step with K={K}, walker on mode {mode}: raised {type(e).__name__}: {e}"}
        up, alpha = seen[0], float(out[5])
        if up == u0 and alpha == 0.0:
            continue
        mu_, l_ = mus[mode], Ls[mode]
        log_ratio = beta * (lp - lc)
        if kernel == "tpcn":
            k_ = (1 + nu) / 2
            dl, dlp = ((u0 - mu_) / l_) ** 2, ((up - mu_) / l_) ** 2
            log_ratio += k_ * math.log((nu + dlp) / (nu + dl))  # Student-t reference density ratio t(u)/t(u') of the walker's own mode
        exact = min(1.0, math.exp(log_ratio))
        err = abs(alpha - exact)
        if worst is None or err > worst[0]:
            worst = (err, i, u0, up, alpha, exact, mus, Ls)
    if worst is None:
        return {"reproduced": False, "what": "no in-cube proposal in the replay family"}
    err, i, u0, up, alpha, exact, mus, Ls = worst
    return {"reproduced": bool(err > 1e-9), "signature": f"{kernel}:K{K}:acceptance-uses-another-mode", "payload": {"means": mus, "scales": Ls, "mode": mode, "u": u0, "proposal": up, "code_alpha": alpha, "exact_alpha": exact},
            "what": f"{kernel}, K={K} modes (means {mus}, scales {Ls}), walker on mode {mode} and the other modes empty: step {u0:.6g} -> {up:.6g} has acceptance {alpha:.6g}, "
                    f"min(1, joint density ratio with the walker's own mode) is {exact:.6g} ({label})"}


def make_acceptance_range(lmax=10 ** 4):
    """magnitudes in the Metropolis ratio of the real RWM step: log-likelihoods of any size up to lmax, any beta in (0,1]. With the
    range abstraction of the double-precision exponential (exactly 0 below -745.1) a move whose acceptance probability exp(beta*dlogL)
    is representable must not be given probability 0, and the probability is never above 1 / never NaN."""
    from vf.props.c04 import RangeFloatOps

    def harness(ctx: PathCtx):
        u = [real(ctx, "u0", lo=0, hi=1)]
        ms = sym_mode_stats(ctx, 1, 1, nu=3.0)
        sigma = real(ctx, "sigma", lo=0, lo_strict=True, hi=1, hi_strict=True)
        beta = real(ctx, "beta", lo=0, lo_strict=True, hi=1)
        l0 = real(ctx, "logl_cur", lo=-lmax, hi=lmax)
        l1 = real(ctx, "logl_prop", lo=-lmax, hi=lmax)
        z = real(ctx, "z0")
        r1 = real(ctx, "urand", lo=0, hi=1, hi_strict=True)
        draws = iter([("randn", sarr([z])), ("rand", sarr([r1]))])
        cb = Cb([l1])

        def provider(kind, rec):
            want, val = next(draws)
            if want != kind:
                raise BoundExceeded(f"draw order: expected {want}, code asked for {kind}")
            return val
        rfo = RangeFloatOps(ctx)
        stub = RandomStub(provider, max_calls=2)
        proxy = NpProxy(random=stub, object_constructors=True, overrides={"nan_to_num": lambda a, nan=0.0, **k: a, "exp": rfo.exp})
        noadapt = lambda self, c, mean_accept: None
        sig = lambda self: sarr([sigma])
        CONFIG["pow_range"] = True
        try:
            with patched(mcmc, np=proxy), patched_attr(mcmc.RWMRunner, _adapt_sigma=noadapt, _initialize_sigmas=sig, _check_convergence=lambda self, acc: True):
                out = mcmc.parallel_mcmc(u=sarr([u]), x=sarr([u]), logl=sarr([l0]), blobs=None, assignments=np.zeros(1, dtype=int), beta=beta, mode_stats=ms,
                                         log_likelihood=cb.log_likelihood, prior_transform=cb.prior_transform, n_steps=1, n_max=1, sample="rwm", verbose=False)
        except BoundExceeded:
            return None
        finally:
            CONFIG["pow_range"] = False
        alpha = scalar(out[5])
        if isinstance(alpha, float):
            ctx.check("acceptance-probability-is-a-number-in-[0,1]", z3.BoolVal(alpha == alpha and 0.0 <= alpha <= 1.0), detail=alpha)
            alpha = SymReal.const(Fraction(alpha)) if alpha == alpha and abs(alpha) != float("inf") else None
        else:
            alpha = SymReal.lift(alpha)
            ctx.check("acceptance-probability-is-a-number-in-[0,1]", z3.And(le(0, alpha), le(alpha, 1)))
        discarded = all(a is b for a, b in zip(cb.proposals[0], u))
        if alpha is not None and not discarded:
            # representable probability: beta * (l1 - l0) >= -700  =>  alpha > 0
            ctx.check("representable-acceptance-probability-is-not-flushed-to-zero",
                      z3.Implies((beta * (l1 - l0) >= -700).z, lt(0, alpha)))
        return None

    def replay(m, label, v):
        from vf.engine.util import scripted_random
        vals = {k: float(x) for k, x in m.items() if not isinstance(x, (bool, str))}
        cands = [(vals.get("beta", 0.5), vals.get("logl_cur", 0.0), vals.get("logl_prop", -1000.0))] + [(1e-3, 0.0, -4000.0), (0.5, 0.0, -1000.0), (0.01, -5000.0, -9000.0), (1.0, 0.0, -600.0)]
        for beta, lc, lp in cands:
            if not (0 < beta <= 1):
                continue
            ms = ModeStatistics(np.array([[0.5]]), np.array([[[0.04]]]), np.array([3.0]))
            with scripted_random(randn=lambda *a: np.array([0.1]), rand=lambda *a: np.array([0.999])), np.errstate(all="ignore"), \
                    patched_attr(mcmc.RWMRunner, _initialize_sigmas=lambda self: np.array([0.5]), _adapt_sigma=lambda self, c, a_: None):
                out = mcmc.parallel_mcmc(u=np.array([[0.5]]), x=np.array([[0.5]]), logl=np.array([lc]), blobs=None, assignments=np.zeros(1, dtype=int), beta=beta, mode_stats=ms,
                                         log_likelihood=lambda x: (np.array([lp]), None), prior_transform=lambda q: q, n_steps=1, n_max=1, sample="rwm", verbose=False)
            alpha = float(out[5])
            exact = min(1.0, math.exp(max(beta * (lp - lc), -745.0)))
            bad = (alpha != alpha) or alpha < 0 or alpha > 1 or (beta * (lp - lc) >= -700 and alpha == 0.0) or abs(alpha - exact) > 1e-9 * max(exact, 1e-300) + 1e-300
            if bad:
                return {"reproduced": True, "signature": "rwm:acceptance-probability-loses-magnitude", "payload": {"beta": beta, "logl_cur": lc, "logl_prop": lp, "code_alpha": alpha, "exact_alpha": exact},
                        "what": f"rwm step at beta={beta} from logL={lc} to logL={lp}: acceptance probability {alpha!r}, exp(beta*dlogL) = {exact!r}"}
        return {"reproduced": False, "what": "acceptance probabilities of large log-likelihood drops at small beta are exp(beta*dlogL)"}

    return Obligation("rwm-acceptance-magnitudes", harness, replay=replay, encodes=[mcmc.BaseMCMCRunner.run, mcmc.RWMRunner._compute_acceptance_factor],
                      bounds=f"one RWM step, d=1, log-likelihoods in [-{lmax}, {lmax}], beta in (0,1]",
                      stubs=["np.exp -> range abstraction of the double-precision exponential (0 below -745.1, inf above 709.7)", "x**y (symbolic y) -> 0 iff x == 0, else positive",
                             "np.random.* -> symbolic draws"], theory="QF_NRA", timeout_ms=20000, max_paths=2000)


def _norm_pdf(x, m, s):
    return math.exp(-0.5 * ((x - m) / s) ** 2) / (s * math.sqrt(2 * math.pi))


def _Phi(x):
    return 0.5 * (1 + math.erf(x / math.sqrt(2)))


def replay_kernel(kernel, d, bkind, beta, nu, m, label):
    """(a) redraw clause: count proposal draws of the real _propose from a state next to a hard wall;
       (b) exact 1-D detailed-balance residual for rwm on [0,1] with a linear target, using erf closed forms;
       (c) wrapped tpCN moves: evaluate the real acceptance factor against the exact joint-density ratio at the model's point."""
    if label.startswith("out-of-bounds"):
        rng_state = np.random.get_state()
        np.random.seed(4)
        try:
            ms = ModeStatistics(np.full((1, d), 0.5), (0.25 * np.eye(d)).reshape(1, d, d), np.array([nu]))
            cls = mcmc.TPCNRunner if kernel == "tpcn" else mcmc.RWMRunner
            u = np.full((1, d), 0.02)
            runner = cls(u, u.copy(), np.zeros(1), None, np.zeros(1, dtype=int), beta, ms, lambda x: (np.zeros(len(x)), None), lambda q: q,
                         None, 1, 1, None, None, False)
            count = {"n": 0}
            real_randn = np.random.randn

            def counting(*a):
                count["n"] += 1
                return real_randn(*a)
            np.random.randn = counting
            try:
                calls = []
                for _ in range(200):
                    c0 = count["n"]
                    runner._propose(0)
                    calls.append(count["n"] - c0)
            finally:
                np.random.randn = real_randn
        finally:
            np.random.set_state(rng_state)
        redraws = sum(1 for c in calls if c > 1)
        res = None
        if kernel == "rwm" and d == 1:
            # exact residual pi(u)q(u,u')a(u,u') - pi(u')q(u',u)a(u',u) with q the *renormalised* (redrawn) proposal density
            s = 0.4
            pi = lambda t: 1.0 + t
            Zc = lambda t: _Phi((1 - t) / s) - _Phi((0 - t) / s)
            q = lambda a_, b_: _norm_pdf(b_, a_, s) / Zc(a_)
            acc = lambda a_, b_: min(1.0, pi(b_) / pi(a_))
            ua, ub = 0.05, 0.6
            res = pi(ua) * q(ua, ub) * acc(ua, ub) - pi(ub) * q(ub, ua) * acc(ub, ua)
        return {"reproduced": redraws > 0, "signature": f"{kernel}:hard-bound:redraw-until-inside",
                "payload": {"proposals_needing_a_redraw_out_of_200": redraws, "detailed_balance_residual_example": res},
                "what": f"{kernel}: from u=0.02 next to a hard wall {redraws}/200 proposals were drawn more than once (redraw until inside); the "
                        f"proposal density is renormalised by P(inside|u) which the acceptance ratio ignores"
                        + (f"; exact 1-D residual of detailed balance at (0.05, 0.6) for pi(u)=1+u: {res:.4f}" if res is not None else "")}
    if label.startswith("proposal-is-the-documented-move"):
        return replay_formula(kernel, d, nu, m)
    if bkind in ("interior", "hard") and d == 1 and not label.startswith("out-of-bounds"):
        return replay_interior(kernel, beta, nu, m, label)
    # wrapped moves of tpCN: compare the real acceptance factor with the exact density ratio of the (wrapped) move
    try:
        vals = {k: float(v) for k, v in m.items() if not k.startswith("obs:") and not isinstance(v, (bool, str))}
        u0, mu0, l00, sg, g, z0 = vals["u0"], vals["mu0_0"], vals["L0_00"], vals["sigma"], vals["g"], vals["z0"]
    except Exception:
        return {"reproduced": False, "what": "model incomplete"}
    ms = ModeStatistics(np.array([[mu0]]), np.array([[[l00 * l00]]]), np.array([nu]))
    per = np.array([0]) if bkind == "periodic" else None
    ref = np.array([0]) if bkind == "reflective" else None
    cls = mcmc.TPCNRunner if kernel == "tpcn" else mcmc.RWMRunner
    u = np.array([[u0]])
    runner = cls(u, u.copy(), np.zeros(1), None, np.zeros(1, dtype=int), beta, ms, lambda x: (np.zeros(len(x)), None), lambda q: q, None, 1, 1,
                 per, ref, False)
    runner.sigmas = np.array([sg])
    from vf.engine.util import scripted_random
    with scripted_random(gamma=lambda *a, **k: g, randn=lambda *a: np.array([z0])):
        up = runner._propose(0)
    fac = float(runner._compute_acceptance_factor(np.array([up]), np.zeros(1))[0])
    if kernel != "tpcn":
        if abs(fac) > 1e-12:
            return {"reproduced": True, "signature": f"{kernel}:{bkind}:{label}", "payload": {"factor": fac}, "what": f"rwm acceptance factor {fac}"}
        return replay_rwm_wrapped_step(bkind, beta, vals, ms, per, ref, label)
    # exact: unwrapped proposal point y = mu + a diff + sigma sqrt(s) L z ; reverse witness from the wrapped point
    a = math.sqrt(1 - sg * sg)
    s = 1.0 / g
    y = mu0 + a * (u0 - mu0) + sg * math.sqrt(s) * l00 * z0
    wrapped = abs(y - float(up[0])) > 1e-12
    dlt = ((u0 - mu0) / l00) ** 2
    dlt_p = ((float(up[0]) - mu0) / l00) ** 2
    k = (d + nu) / 2
    # reverse draw that returns to u0 from the wrapped point (modulo the fold): z' solves u0 (+n) = mu + a(up-mu) + sigma sqrt(s) l z'
    best = None
    for n in (-2, -1, 0, 1, 2):
        zr = (u0 + n - mu0 - a * (float(up[0]) - mu0)) / (sg * math.sqrt(s) * l00)
        logr = -g * ((nu + dlt_p) / 2 - (nu + dlt) / 2) - 0.5 * (zr * zr - z0 * z0) + k * math.log((nu + dlt_p) / (nu + dlt))
        if best is None or abs(zr) < abs(best[0]):
            best = (zr, logr)
    exact = best[1]
    bad = wrapped and abs(exact - fac) > 1e-9
    return {"reproduced": bool(bad), "signature": f"tpcn:{bkind}:student-t-correction-ignores-wrapping",
            "payload": {"u": u0, "mu": mu0, "scale": l00, "sigma": sg, "gamma_draw": g, "normal_draw": z0, "unwrapped_proposal": y,
                        "wrapped_proposal": float(up[0]), "code_log_factor": fac, "exact_log_ratio_of_joint_densities": exact},
            "what": f"tpCN on a {bkind} coordinate: from u={u0:.4f} (mode mean {mu0:.4f}, scale {l00:.4f}, sigma {sg:.4f}) the proposal {y:.4f} is folded to "
                    f"{float(up[0]):.4f}; the code's log acceptance factor {fac:.6f} differs from the log ratio of joint densities {exact:.6f}"}


def replay_formula(kernel, d, nu, m):
    """real _propose under scripted draws against the closed formula, any d (correlated scale matrix)."""
    from vf.engine.util import scripted_random
    vals = {k: float(x) for k, x in m.items() if not isinstance(x, (bool, str))}
    rng = np.random.RandomState(0)
    u = np.array([vals.get(f"u{j}", 0.4) for j in range(d)])
    mu = np.array([vals.get(f"mu0_{j}", 0.5) for j in range(d)])
    if d == 1:
        L = np.array([[abs(vals.get("L0_00", 0.2)) or 0.2]])
    else:
        L = np.array([[abs(vals.get("L0_00", 0.2)) or 0.2, 0.0], [vals.get("L0_10", 0.15) or 0.15, abs(vals.get("L0_11", 0.1)) or 0.1]])
    sg, g = min(max(vals.get("sigma", 0.5), 0.05), 0.95), (vals.get("g", 1.3) or 1.3)
    z = np.array([vals.get(f"z{j}", 0.3 * (j + 1)) or 0.3 * (j + 1) for j in range(d)])
    ms = ModeStatistics(mu.reshape(1, d), (L @ L.T).reshape(1, d, d), np.array([float(nu)]))
    cls = mcmc.TPCNRunner if kernel == "tpcn" else mcmc.RWMRunner
    runner = cls(u.reshape(1, d), u.reshape(1, d), np.zeros(1), None, np.zeros(1, dtype=int), 1.0, ms, lambda x: (np.zeros(1), None), lambda q: q,
                 None, 1, 1, None, None, False)
    runner.sigmas = np.array([sg])
    with scripted_random(gamma=lambda *a, **k: g, randn=lambda *a: z.copy()):
        up = np.asarray(runner._propose(0), dtype=float)
    if kernel == "tpcn":
        expect = mu + math.sqrt(1 - sg * sg) * (u - mu) + sg * math.sqrt(1.0 / g) * (L @ z)
    else:
        expect = u + sg * (L @ z)
    bad = not np.allclose(up, expect, rtol=1e-9, atol=1e-12)
    return {"reproduced": bool(bad), "signature": f"{kernel}:proposal-formula:d{d}", "payload": {"u": u.tolist(), "L": L.tolist(), "z": z.tolist(), "proposal": up.tolist(), "expected": expect.tolist()},
            "what": f"{kernel} _propose with Cholesky factor {L.tolist()}, sigma {sg}, gamma draw {g}, normal draw {z.tolist()}: proposal {up.tolist()} but the move "
                    f"with noise covariance Sigma = L L^T gives {expect.tolist()}"}


def replay_interior(kernel, beta, nu, m, label):
    """float replay of the involution / density-ratio obligations at the solver's point (d=1, no wrapping)."""
    from vf.engine.util import scripted_random
    vals = {k: float(v) for k, v in m.items() if not k.startswith("obs:") and not isinstance(v, (bool, str))}
    try:
        u0, mu0, l00, sg, z0 = vals["u0"], vals["mu0_0"], vals["L0_00"], vals["sigma"], vals["z0"]
        g = vals.get("g", 1.0)
        D = Fraction(beta).limit_denominator(64).denominator
        l_cur, l_prop = D * math.log(vals["expatom_l_cur"]), D * math.log(vals["expatom_l_prop"])
        urand = vals.get("urand", 0.5)
    except Exception as e:
        return {"reproduced": False, "what": f"model incomplete: {e}"}
    ms = ModeStatistics(np.array([[mu0]]), np.array([[[l00 * l00]]]), np.array([nu]))
    k = (1 + nu) / 2
    gam = []

    def gamma_spy(shape=None, scale=1.0, size=None):
        gam.append((float(shape), float(scale)))
        return g

    def step(start, l_start, l_new, zdraw):
        cls = mcmc.TPCNRunner if kernel == "tpcn" else mcmc.RWMRunner
        seen = []

        def pt(q):
            seen.append(np.array(q, dtype=float))
            return q
        with scripted_random(gamma=gamma_spy, randn=lambda *a: np.array([zdraw]), rand=lambda *a: np.array([urand])), \
                patched_attr(cls, _initialize_sigmas=lambda self: np.array([sg]), _adapt_sigma=lambda self, c, a_: None):
            out = mcmc.parallel_mcmc(u=np.array([[start]]), x=np.array([[start]]), logl=np.array([l_start]), blobs=None,
                                     assignments=np.zeros(1, dtype=int), beta=beta, mode_stats=ms,
                                     log_likelihood=lambda x: (np.array([l_new]), None), prior_transform=pt, n_steps=1, n_max=1,
                                     sample=kernel, verbose=False)
        return float(seen[0][0]), float(out[5]), float(out[0][0, 0])
    up, alpha, unew = step(u0, l_cur, l_prop, z0)
    if up == u0 and alpha == 0.0:
        return {"reproduced": False, "what": "the model's proposal is outside the cube for the float run"}
    a = math.sqrt(1 - sg * sg)
    if kernel == "tpcn":
        zrev = [sg * math.sqrt(g) * (u0 - mu0) / l00 - a * z0]
    else:
        zrev = [-z0, z0]
    best = None
    for zr in zrev:
        upp, _, _ = step(up, l_prop, l_cur, zr)
        if best is None or abs(upp - u0) < abs(best[0] - u0):
            best = (upp, zr)
    upp, zr = best
    landed = abs(upp - u0) < 1e-9
    log_ratio = beta * (l_prop - l_cur)
    energy = 0.0
    shape_ok = True
    if kernel == "tpcn":
        (sh_f, th_f), (sh_r, th_r) = gam[0], gam[-1]
        shape_ok = abs(sh_f - k) < 1e-12 and abs(sh_r - k) < 1e-12
        energy = g * (1 / th_r - 1 / th_f) + (zr * zr - z0 * z0) / 2
        log_ratio += k * math.log(th_f / th_r) - energy
    else:
        energy = (zr * zr - z0 * z0) / 2
    exact = min(1.0, math.exp(log_ratio))
    bad = {"reverse-move-with-the-witness-draws-returns-to-the-start(involution)": not landed,
           "gamma-shape-is-(d+nu)/2-in-both-directions": not shape_ok,
           "energy-identity(gamma*normal densities balance)": abs(energy) > 1e-9,
           "normal-density-of-the-witness-equals-forward": abs(energy) > 1e-9,
           "acceptance-probability==min(1,joint-density-ratio)": abs(alpha - exact) > 1e-9,
           "accept-iff-urand<alpha": (urand < alpha) != (unew == up),
           "evaluated-proposals-are-inside-the-cube": not (0 <= up <= 1)}.get(label, False)
    return {"reproduced": bool(bad), "signature": f"{kernel}:kernel-arithmetic:{label.split('(')[0]}",
            "payload": {"u": u0, "mu": mu0, "scale": l00, "sigma": sg, "gamma_draw": g, "normal_draw": z0, "proposal": up, "reverse_lands_on": upp,
                        "gamma_calls(shape,scale)": gam[:1] + gam[-1:], "energy": energy, "code_alpha": alpha, "exact_alpha": exact},
            "what": f"{kernel} step from u={u0:.6g} (mean {mu0:.6g}, scale {l00:.6g}, sigma {sg:.6g}, gamma draw {g:.6g}, normal draw {z0:.6g}): proposal {up:.6g}, "
                    f"reverse move lands on {upp:.6g}, energy {energy:.3g}, acceptance {alpha:.6g} vs min(1, joint density ratio) {exact:.6g} ({label})"}


def obligations(tier):
    H = Fraction(1, 2)
    obs = [make_kernel("tpcn", 1, "interior", 1), make_kernel("tpcn", 1, "interior", H), make_kernel("tpcn", 1, "hard", H), make_kernel("rwm", 1, "hard", 1),
           make_kernel("rwm", 1, "periodic", H), make_kernel("rwm", 1, "reflective", 1), make_kernel("tpcn", 1, "periodic", 1),
           make_propose_only(1501), make_modestats(1), make_modestats(2), make_kernel("tpcn", 2, "interior", 1),
           make_composition("tpcn", 1, 0), make_composition("rwm", 2, 1), make_composition("tpcn", 2, 0),
           make_kernel("tpcn", 1, "interior", H, K=2, mode=1), make_acceptance_range(),
           # reports a known finding: with a correlated scale matrix the fold of a reflective coordinate breaks proposal symmetry
           make_kernel("rwm", 2, "reflective", 1)]
    if tier == "thorough":
        # (tpCN on a reflective coordinate is not enumerated: the parity forks exhaust the budget; its known finding is the
        #  same defect as on periodic coordinates, which the quick tier reports)
        obs += [make_kernel("tpcn", 1, "interior", H, nu=5.0), make_kernel("tpcn", 1, "periodic", H, wraps=2),
                # (tpcn d=2 at beta=1/2, nu=4 - power 3 of a quadratic form in 2-d - ends in nlsat `unknown`: not scheduled)
                make_kernel("rwm", 2, "hard", 1), make_kernel("rwm", 2, "periodic", 1),
                make_composition("tpcn", 2, 1, nu=5.0), make_composition("rwm", 1, 0, beta=1), make_composition("rwm", 2, 0),
                make_kernel("tpcn", 1, "hard", 1, K=3, mode=2), make_kernel("rwm", 1, "hard", 1, K=2, mode=1), make_kernel("tpcn", 1, "interior", 1, K=3, mode=1)]
    return obs
