"""C10 - rescaling the likelihood shifts log-evidence only (relational, step-wise)."""
from __future__ import annotations

import math
from fractions import Fraction

import numpy as np
import z3

import tempest.mcmc as mcmc
import tempest.state_manager as sm_mod
import tempest.steps.mutate as mutate_mod
import tempest.steps.reweight as rw_mod
from tempest.state_manager import StateManager

from vf.engine.core import PathCtx
from vf.engine.harness import Obligation
from vf.engine.real import LogVal, SymReal, CONFIG
from vf.engine.arr import NpProxy, RandomStub, patched, patched_attr, sarr
from vf.engine.util import real, eq, le
from vf.props.c04 import make_relational, make_finite, make_symbolic_beta
from vf.props.c05 import make_levelA
from vf.props.c05 import max_model
from vf.props.mcmc_common import Callbacks, Draws, exp_as_uf, mcmc_proxy, sym_mode_stats, isinf_model

PROPERTY_ID = "C10"
ASSUMPTIONS = [
    "step-wise relational claim: the four pipeline steps are the only consumers of log-likelihood values, so the run-level statement "
    "follows by induction over iterations; each step is executed twice (logL and logL+c, symbolic c) in one path context",
    "exact reals ('up to floating-point rounding' is outside the claim); np.exp on plain reals uninterpreted in the kernel step",
]


# ---------------------------------------------------------------- (b) reweighting


def make_reweight(N, tol, ratio, D):
    tolf, ratio = Fraction(tol), Fraction(float(Fraction(ratio)))

    def build(ctx, shift):
        st = StateManager(n_dim=1)
        ls = [LogVal.atom(f"l{j}", D) for j in range(N)]
        if shift is not None:
            ls = [l + shift for l in ls]
        st.update_current({"u": np.zeros((N, 1)), "logl": sarr(ls), "beta": 0.0, "logz": LogVal({})})
        st.commit_current_to_history()
        st._current["beta"] = 0.0
        st._current["iter"] = 1
        rw = rw_mod.Reweighter(state=st, pbar=None, n_particles=1, ess_ratio=float(ratio), volume_variation=None,
                               ESS_TOLERANCE=0.01, BETA_TOLERANCE=float(tolf))
        with patched(rw_mod, np=NpProxy(exact_log=True, overrides={"max": max_model, "isfinite": lambda x: True})), \
                patched(sm_mod, np=NpProxy(exact_log=True)):
            w = rw.run()
        return st, w

    def harness(ctx: PathCtx):
        c = LogVal.atom("cshift", D)
        st1, w1 = build(ctx, None)
        st2, w2 = build(ctx, c)
        b1, b2 = SymReal.lift(st1._current["beta"]), SymReal.lift(st2._current["beta"])
        ctx.check("same-temperature", eq(b1, b2))
        ctx.check("same-normalised-weights", z3.And(*[eq(w1[i], w2[i]) for i in range(N)]))
        ctx.check("same-ESS", eq(st1._current["ess"], st2._current["ess"]))
        bc = b1.concrete()
        if bc is not None:
            ctx.check("evidence-shifts-by-beta*c", eq(st2._current["logz"].exp(), (st1._current["logz"] + c * bc).exp()))
        return str(bc)

    def replay(m, label, v):
        ll = np.array([D * math.log(float(m[f"expatom_l{j}"])) for j in range(N)])
        c = D * math.log(float(m["expatom_cshift"]))
        res = []
        for sh in (0.0, c):
            st = StateManager(n_dim=1)
            st.update_current({"u": np.zeros((N, 1)), "logl": ll + sh, "beta": 0.0, "logz": 0.0})
            st.commit_current_to_history()
            st.set_current("beta", 0.0)
            st.set_current("iter", 1)
            rw = rw_mod.Reweighter(state=st, pbar=None, n_particles=1, ess_ratio=float(ratio), ESS_TOLERANCE=0.01, BETA_TOLERANCE=float(tolf))
            w = rw.run()
            res.append((st.get_current("beta"), np.asarray(w), st.get_current("ess"), st.get_current("logz")))
        (b1, w1, e1, z1), (b2, w2, e2, z2) = res
        bad = b1 != b2 or not np.allclose(w1, w2, rtol=1e-9) or not math.isclose(e1, e2, rel_tol=1e-9) or not math.isclose(z2, z1 + b1 * c, rel_tol=1e-9, abs_tol=1e-9)
        return {"reproduced": bool(bad), "signature": f"reweight-not-shift-invariant:{label}",
                "payload": {"logl": ll.tolist(), "c": c, "run": [b1, w1.tolist(), e1, z1], "shifted": [b2, w2.tolist(), e2, z2]},
                "what": f"Reweighter.run on logl={ll.tolist()} vs logl+{c}: beta {b1} vs {b2}, ess {e1} vs {e2}, logz {z1} vs {z2} (expected shift {b1 * c})"}

    return Obligation(f"reweight-N{N}-tol{tol}-ratio{ratio}", harness, replay=replay,
                      encodes=[rw_mod.Reweighter.run, StateManager.compute_logw_and_logz],
                      bounds=f"one beta=0 batch of N={N} symbolic log-likelihoods, symbolic shift c, ESS target {ratio}, BETA_TOLERANCE={tol}, grid 1/{D}",
                      stubs=["np.log/np.logaddexp -> exact log-domain algebra", "np.max -> fresh m (no fork)"], theory="QF_NRA", timeout_ms=30000)


# ---------------------------------------------------------------- (c) one kernel step


def make_kernel(kernel, n, d):
    def one(ctx, cb, u, x, ms, beta):
        logl = [cb.ll_term(x[k]) + (cb.shift if cb.shift is not None else 0) for k in range(n)]
        stub = RandomStub(Draws(ctx), max_calls=(2 if kernel == "tpcn" else 1) * n + 2)
        noadapt = lambda self, c, mean_accept: None
        with exp_as_uf(abstract=True), patched(mcmc, np=mcmc_proxy(stub)), patched_attr(mcmc.TPCNRunner, _adapt_sigma=noadapt, _check_convergence=lambda self, acc: True), \
                patched_attr(mcmc.RWMRunner, _adapt_sigma=noadapt, _check_convergence=lambda self, acc: True):
            out = mcmc.parallel_mcmc(u=sarr(u), x=sarr(x), logl=sarr(logl), blobs=None, assignments=np.zeros(n, dtype=int), beta=beta,
                                     mode_stats=ms, log_likelihood=cb.log_likelihood, prior_transform=cb.prior_transform,
                                     n_steps=1, n_max=1, sample=kernel, verbose=False)
        return out

    def harness(ctx: PathCtx):
        c = real(ctx, "c")
        cb1 = Callbacks(d)
        cb2 = Callbacks(d, shift=c)
        u = [[real(ctx, f"u{k}_{j}", lo=0, hi=1) for j in range(d)] for k in range(n)]
        x = [cb1.pt_terms(u[k]) for k in range(n)]
        beta = real(ctx, "beta", lo=0, lo_strict=True, hi=1)
        ms = sym_mode_stats(ctx, d, 1, nu=3.0)
        o1 = one(ctx, cb1, u, x, ms, beta)
        o2 = one(ctx, cb2, u, x, ms, beta)
        CONFIG["abstract_args"] = True
        conds = [eq(a, b) for a, b in zip(np.asarray(o1[0], dtype=object).reshape(-1), np.asarray(o2[0], dtype=object).reshape(-1))]
        conds += [eq(a, b) for a, b in zip(np.asarray(o1[1], dtype=object).reshape(-1), np.asarray(o2[1], dtype=object).reshape(-1))]
        ctx.check("same-particles", z3.And(*conds))
        ctx.check("logl-shifted-by-c", z3.And(*[eq(b, a + c) for a, b in zip(o1[2], o2[2])]))
        ctx.check("same-acceptance-and-call-count", z3.And(eq(o1[5], o2[5]), z3.BoolVal(o1[7] == o2[7])))
        CONFIG["abstract_args"] = False
        return None

    def replay(m, label, v):
        c = float(m.get("c", 3.0))
        res = []
        rng = np.random.RandomState(2)
        u = rng.rand(n, d)
        from tempest.modes import ModeStatistics
        ms = ModeStatistics(np.full((1, d), 0.5), (0.04 * np.eye(d)).reshape(1, d, d), np.array([3.0]))
        for sh in (0.0, c):
            def ll(xx, sh=sh):
                return -np.sum((xx - 0.4) ** 2, axis=1) * 8 + sh, None
            saved = np.random.get_state()
            np.random.seed(5)
            try:
                out = mcmc.parallel_mcmc(u=u, x=u.copy(), logl=ll(u)[0], blobs=None, assignments=np.zeros(n, dtype=int), beta=0.7, mode_stats=ms,
                                         log_likelihood=ll, prior_transform=lambda q: q, n_steps=2, n_max=3, sample=kernel, verbose=False)
            finally:
                np.random.set_state(saved)
            res.append(out)
        bad = not np.allclose(res[0][0], res[1][0], rtol=1e-12) or not np.allclose(res[0][2] + c, res[1][2], rtol=1e-9)
        return {"reproduced": bool(bad), "signature": f"kernel-not-shift-invariant:{kernel}", "payload": {"c": c},
                "what": f"parallel_mcmc({kernel}) with logL and logL+{c} under the same seed: particles equal={np.allclose(res[0][0], res[1][0])}"}

    return Obligation(f"kernel-{kernel}-n{n}-d{d}", harness, replay=replay,
                      encodes=[mcmc.parallel_mcmc, mcmc.BaseMCMCRunner.run, mcmc.TPCNRunner._compute_acceptance_factor],
                      bounds=f"one kernel iteration, {n} walkers, d={d}, symbolic shift c, identical symbolic draws in both runs, <= 1 redraw",
                      stubs=["np.random.* -> shared symbolic draws", "np.exp/np.log on reals -> uninterpreted", "_adapt_sigma -> no-op, _check_convergence -> True (one kernel iteration)"],
                      allow_bound="paths needing more proposal redraws than the draw budget are cut", theory="QF_UFNRA", max_paths=3000)


# ---------------------------------------------------------------- (d) warm-up


def make_warmup(n, d=1):
    def one(ctx, cb):
        st = StateManager(n_dim=d)
        st._current.update({"beta": 0.0, "calls": 0, "logz": 0.0, "iter": 1})
        mut = mutate_mod.Mutator(state=st, prior_transform=cb.prior_transform, log_likelihood=cb.log_likelihood, pbar=None, n_particles=n, n_dim=d)
        stub = RandomStub(Draws(ctx), max_calls=5)  # <= 3 unsupported batches in a row are followed, then one replacement draw
        with patched(mutate_mod, np=NpProxy(random=stub, overrides={"isinf": isinf_model})):
            mut.run(None)
        return st._current

    def harness(ctx: PathCtx):
        c = real(ctx, "c")
        c1 = one(ctx, Callbacks(d, inf=True))
        c2 = one(ctx, Callbacks(d, inf=True, shift=c))
        ctx.check("no-minus-inf-stored", z3.BoolVal(not (any(isinstance(v, float) for v in c1["logl"]) or any(isinstance(v, float) for v in c2["logl"]))))
        ctx.check("same-particles", z3.And(*[eq(a, b) for a, b in zip(np.asarray(c1["u"], dtype=object).reshape(-1), np.asarray(c2["u"], dtype=object).reshape(-1))]))
        ctx.check("logl-shifted-by-c", z3.And(*[eq(b, a + c) for a, b in zip(c1["logl"], c2["logl"])]))
        ctx.check("prior-phase-evidence-independent-of-c", z3.BoolVal(c1["logz"] == c2["logz"]))
        return None

    return Obligation(f"warmup-n{n}", harness, replay=None, encodes=[mutate_mod.Mutator.run],
                      bounds=f"{n} prior draws, every -inf pattern (same support in both runs), symbolic shift c", theory="QF_UFLRA",
                      allow_bound="more than 3 consecutive prior batches without a supported draw are cut")


H = Fraction(1, 2)


def obligations(tier):
    obs = [make_relational((1, 2), (Fraction(0), H), Fraction(1), 2, "shift"), make_relational((1, 1, 2), (Fraction(0), H, Fraction(1)), Fraction(1), 2, "shift"),
           make_reweight(2, "1/4", "3/2", 8), make_kernel("rwm", 2, 1), make_kernel("tpcn", 1, 1), make_warmup(2),
           # shifts of up to +-1e3 nats must not push the evidence bookkeeping out of double range
           make_finite((2, 1), (Fraction(0), H), Fraction(1), shifted=True),
           # volume-variation mode: the recorded evidence belongs to the recorded temperature (so that it shifts by beta_t*c)
           make_levelA("vol", 2, "1/4"),
           # arbitrary real temperatures (no grid): weights and evidence move by exactly beta_final*c under logL -> logL + c
           make_symbolic_beta((2, 1, 1), shift=True)]
    if tier == "thorough":
        obs += [make_reweight(2, "1/8", "3/2", 16), make_reweight(3, "1/4", "2", 8), make_kernel("tpcn", 2, 1), make_kernel("rwm", 1, 2), make_warmup(3),
                make_symbolic_beta((1, 2, 1, 1), shift=True), make_symbolic_beta((2, 1), shift=True, free_final=True)]
    return obs
