"""C13 - likelihood evaluation strategy is transparent; calls are counted exactly."""
from __future__ import annotations

import itertools
import math
import sys
import warnings
import types

import numpy as np
import z3

import tempest.core as core_mod
import tempest.mcmc as mcmc
import tempest.steps.mutate as mutate_mod
from tempest.sampler import Sampler
from tempest.state_manager import StateManager

from vf.engine.core import PathCtx, SymBool, HarnessError
from vf.engine.harness import Obligation
from vf.engine.real import SymReal, SymInt
from vf.engine.arr import NpProxy, RandomStub, patched, patched_attr, sarr, SymArray, is_sym
from vf.engine.util import real, eq, le, integer
from vf.props.mcmc_common import Callbacks, Draws, exp_as_uf, mcmc_proxy, sym_mode_stats, isinf_model

PROPERTY_ID = "C13"
ASSUMPTIONS = [
    "the user's likelihood is a function of the point (uninterpreted LL/BL); a pool-like object honours the documented "
    "contract of map/imap (results in input order) while completing tasks in an arbitrary (symbolic) order",
    "float(value) on likelihood results is the identity on symbolic reals (the conversion itself is outside the claim)",
    "real multiprocess pools and pickling of the likelihood are outside the claim (Pool is a contract double)",
]


class SymPoolSize(int):
    """an `int` (so that isinstance(pool, int) behaves) whose comparisons are symbolic."""

    def __new__(cls, sym: SymInt):
        o = int.__new__(cls, 0)
        o.sym = sym
        return o

    def __gt__(self, o):
        return self.sym > o

    def __ge__(self, o):
        return self.sym >= o

    def __lt__(self, o):
        return self.sym < o

    def __le__(self, o):
        return self.sym <= o

    def __eq__(self, o):
        return self.sym == o

    def __ne__(self, o):
        return self.sym != o

    __hash__ = None


class PoolDouble:
    """contract double for a worker pool: tasks complete in an arbitrary order chosen by the solver."""

    def __init__(self, ctx: PathCtx, tag="pool", size=None):
        self.ctx = ctx
        self.tag = tag
        self.size = size
        self.n_maps = 0
        self.completion_orders = []

    def _order(self, n):
        ctx = self.ctx
        self.n_maps += 1
        remaining = list(range(n))
        order = []
        for k in range(n - 1):
            zi = ctx.register(f"{self.tag}{self.n_maps}_ord{k}", z3.Int(f"{self.tag}{self.n_maps}_ord{k}"))
            ctx.assume(z3.And(zi >= 0, zi < len(remaining)))
            j = SymInt(zi).resolve(0, len(remaining) - 1)
            order.append(remaining.pop(j))
        order += remaining
        self.completion_orders.append(order)
        return order

    def map(self, f, xs):
        xs = list(xs)
        order = self._order(len(xs))
        res = {}
        for i in order:
            res[i] = f(xs[i])
        return [res[i] for i in range(len(xs))]

    def imap(self, f, xs):
        return iter(self.map(f, xs))

    def imap_unordered(self, f, xs):
        xs = list(xs)
        order = self._order(len(xs))
        return iter([f(xs[i]) for i in order])

    def close(self):
        pass

    def join(self):
        pass


class FutureDouble:
    def __init__(self, value):
        self._v = value

    def result(self, timeout=None):
        return self._v

    def done(self):
        return True


class ExecutorDouble(PoolDouble):
    """pool-like object that also offers the concurrent.futures interface (submit + as_completed): tasks complete in an
    arbitrary symbolic order; map() keeps the documented input order."""

    def submit(self, f, *a, **k):
        fut = FutureDouble(f(*a, **k))
        self.submitted = getattr(self, "submitted", []) + [fut]
        return fut

    def shutdown(self, wait=True):
        pass

    def as_completed(self, futures, timeout=None):
        futures = list(futures)
        order = self._order(len(futures))
        return iter([futures[i] for i in order])


class futures_double:
    """routes concurrent.futures.as_completed / wait to the executor double for the duration of a call."""

    def __init__(self, ex):
        self.ex = ex

    def __enter__(self):
        import concurrent.futures as cf
        self.cf = cf
        self.saved = (cf.as_completed, cf.wait)
        cf.as_completed = lambda fs, timeout=None: (self.ex.as_completed(fs) if self.ex is not None else self.saved[0](fs, timeout))
        return self

    def __exit__(self, *a):
        self.cf.as_completed, self.cf.wait = self.saved


def fake_multiprocess(ctx, record):
    mod = types.ModuleType("multiprocess")

    def Pool(n=None, *a, **k):
        p = PoolDouble(ctx, tag=f"mp{len(record)}", size=n)
        record.append(p)
        return p
    mod.Pool = Pool
    return mod


class numpy_import_as:
    """SamplerCore._log_like does a function-local `import numpy as np`, which bypasses the module-global proxy;
    route that import to the proxy for the duration of the call."""

    def __init__(self, proxy):
        self.proxy = proxy

    def __enter__(self):
        self.saved = sys.modules["numpy"]
        sys.modules["numpy"] = self.proxy

    def __exit__(self, *a):
        sys.modules["numpy"] = self.saved


class DispatchRandom:
    """np.random as seen by the likelihood-dispatch code (SamplerCore._log_like / _get_distribute_func): every use is recorded;
    the dispatch machinery must not consume (or reseed) the stream the sampler draws its innovations from."""

    def __init__(self):
        self.used = []

    def __getattr__(self, name):
        if name.startswith("_"):
            raise AttributeError(name)

        def f(*a, **k):
            self.used.append(name)
            return getattr(np.random.RandomState(12345), name)(*a, **k)
        return f


def core_proxy(stub=None):
    def _dt(dtype):
        # the harness replaces the module-level name `float` by the identity (float() of a symbolic value); as a dtype it still means float64
        return float if (callable(dtype) and not isinstance(dtype, type) and not isinstance(dtype, np.dtype)) else dtype

    def array(obj, dtype=None, **k):
        dtype = _dt(dtype)
        flat = np.array(obj, dtype=object)
        if any(is_sym(v) for v in flat.reshape(-1)):
            return flat.view(SymArray)
        return np.array(obj, dtype=dtype, **k)
    def nan_to_num(a, copy=True, nan=0.0, posinf=None, neginf=None):
        """numpy semantics on mixed symbolic/float arrays: NaN -> nan, +inf -> posinf or the largest double, -inf -> neginf or the most negative double"""
        big = float(np.finfo(np.float64).max)

        def one(v):
            if isinstance(v, float):
                if v != v:
                    return nan
                if v == float("inf"):
                    return big if posinf is None else posinf
                if v == float("-inf"):
                    return -big if neginf is None else neginf
            return v
        arr = np.asarray(a, dtype=object)
        out = np.empty(arr.shape, dtype=object)
        for idx in np.ndindex(arr.shape):
            out[idx] = one(arr[idx])
        return out.view(SymArray) if arr.ndim else out.item()
    def asarray(obj, dtype=None, **k):
        dtype = _dt(dtype)
        if isinstance(obj, np.ndarray) and obj.dtype == object and dtype in (float, np.float64) and any(is_sym(v) for v in obj.reshape(-1)):
            return obj  # conversion to double is the identity in the exact-real model
        if dtype in (float, np.float64) and not isinstance(obj, np.ndarray):
            return array(obj, dtype=dtype)
        return np.asarray(obj, dtype=dtype, **k)
    return NpProxy(random=stub, overrides={"array": array, "asarray": asarray, "nan_to_num": nan_to_num})


def point_likelihood(cb: Callbacks, blobs: bool, counter: dict):
    def f(xrow):
        counter["points"] += 1
        row = list(np.asarray(xrow, dtype=object).reshape(-1))
        if cb.inf and bool(SymBool(cb.inf_term(row))):
            return (float("-inf"), cb.bl_term(row)) if blobs else float("-inf")
        if blobs:
            return (cb.ll_term(row), cb.bl_term(row))
        return cb.ll_term(row)
    return f


def batch_likelihood(cb: Callbacks, counter: dict):
    def f(x):
        x = np.asarray(x, dtype=object)
        if x.ndim != 2:
            # a vectorised likelihood is documented to receive an (n, d) batch; remember the breach and answer for the single row
            counter["bad_shape"] = counter.get("bad_shape", 0) + 1
            counter["points"] += 1
            return cb.ll_term(list(x.reshape(-1)))
        counter["points"] += x.shape[0]
        return sarr([float("-inf") if (cb.inf and bool(SymBool(cb.inf_term(list(x[i]))))) else cb.ll_term(list(x[i])) for i in range(x.shape[0])])
    return f


STRATS = ["vectorized", "serial", "pool-int", "pool-object", "pool-executor", "vectorized+pool-object"]


def build_sampler(ctx, cb, strat, blobs, counter, d=1, n=2, mp_record=None, sample="rwm"):
    kw = dict(n_dim=d, n_particles=n, clustering=False, sample=sample, n_steps=1, n_max_steps=1)
    if strat == "vectorized":
        return Sampler(cb.prior_transform, batch_likelihood(cb, counter), vectorize=True, **kw)
    if strat == "vectorized+pool-object":
        # both options given: the likelihood is still a batch function and must be called on batches
        return Sampler(cb.prior_transform, batch_likelihood(cb, counter), vectorize=True, pool=PoolDouble(ctx), **kw)
    bd = "float64" if blobs else None
    f = point_likelihood(cb, blobs, counter)
    if strat == "serial":
        return Sampler(cb.prior_transform, f, blobs_dtype=bd, **kw)
    if strat == "pool-int":
        size = SymPoolSize(integer(ctx, "pool_size", lo=1, hi=4))
        return Sampler(cb.prior_transform, f, blobs_dtype=bd, pool=size, **kw)
    if strat == "pool-object":
        return Sampler(cb.prior_transform, f, blobs_dtype=bd, pool=PoolDouble(ctx), **kw)
    if strat == "pool-executor":
        return Sampler(cb.prior_transform, f, blobs_dtype=bd, pool=ExecutorDouble(ctx, tag="ex"), **kw)
    raise ValueError(strat)


def make_loglike(strat, blobs, npts, d=1):
    def harness(ctx: PathCtx):
        cb = Callbacks(d, blobs=blobs)
        counter = {"points": 0}
        rec = []
        smp = build_sampler(ctx, cb, strat, blobs, counter, d=d, mp_record=rec)
        x = [[real(ctx, f"x{i}_{j}") for j in range(d)] for i in range(npts)]
        saved = sys.modules.get("multiprocess")
        sys.modules["multiprocess"] = fake_multiprocess(ctx, rec)
        try:
            ex = smp._core.config.pool if isinstance(smp._core.config.pool, ExecutorDouble) else None
            dr = DispatchRandom()
            with patched(core_mod, np=core_proxy(dr), float=lambda v: v), numpy_import_as(core_proxy(dr)), futures_double(ex):
                try:
                    logl, bl = smp._core._log_like(sarr(x))
                except AttributeError as e:
                    ctx.fail("every-pool-size-works", f"AttributeError: {e}")
                    return None
        finally:
            if saved is not None:
                sys.modules["multiprocess"] = saved
            else:
                sys.modules.pop("multiprocess", None)
        ctx.ok("every-pool-size-works")
        ctx.check("one-value-per-point", z3.BoolVal(len(logl) == npts))
        ctx.check("logl[i]==LL(x[i])-in-input-order", z3.And(*[eq(logl[i], cb.ll_term(x[i])) for i in range(min(npts, len(logl)))]))
        if blobs and not strat.startswith("vectorized"):
            okb = bl is not None and len(bl) == npts
            ctx.check("blobs-returned", z3.BoolVal(bool(okb)))
            if okb:
                ctx.check("blob[i]==BL(x[i])-in-input-order", z3.And(*[eq(bl[i], cb.bl_term(x[i])) for i in range(npts)]))
        ctx.check("likelihood-evaluated-once-per-point", z3.BoolVal(counter["points"] == npts))
        ctx.check("vectorised-likelihood-receives-2d-batches", z3.BoolVal(not counter.get("bad_shape")), detail={"calls_with_a_single_row": counter.get("bad_shape", 0)})
        ctx.check("dispatch-does-not-touch-the-random-stream", z3.BoolVal(not dr.used), detail=dr.used[:4])
        return None

    def replay(m, label, v):
        if label == "dispatch-does-not-touch-the-random-stream":
            # real dispatch code, real numpy stream; worker processes replaced by an in-process pool class
            import types as _t
            size = int(m.get("pool_size", 2))

            class InProc:
                def __init__(self, *a, **k):
                    pass

                def map(self, f, xs):
                    return [f(x_) for x_ in xs]

                def close(self):
                    pass

                def join(self):
                    pass

                def terminate(self):
                    pass
            saved = sys.modules.get("multiprocess")
            sys.modules["multiprocess"] = _t.SimpleNamespace(Pool=InProc)
            s0 = np.random.get_state()
            try:
                np.random.seed(5)
                before = np.random.get_state()[1].copy(), np.random.get_state()[2]
                pool = {"pool-int": size, "pool-object": InProc(), "pool-executor": None}.get(strat)
                kw = dict(n_dim=d, n_particles=2, clustering=False)
                if strat == "vectorized":
                    smp = Sampler(lambda u: u, lambda xx: -np.sum(xx ** 2, axis=1), vectorize=True, **kw)
                else:
                    smp = Sampler(lambda u: u, lambda xr: -float(np.sum(xr ** 2)), pool=pool, **kw)
                smp._core._log_like(np.zeros((npts, d)))
                after = np.random.get_state()[1].copy(), np.random.get_state()[2]
            finally:
                np.random.set_state(s0)
                if saved is not None:
                    sys.modules["multiprocess"] = saved
                else:
                    sys.modules.pop("multiprocess", None)
            moved = (not np.array_equal(before[0], after[0])) or before[1] != after[1]
            return {"reproduced": bool(moved), "signature": f"_log_like:{strat}:consumes-the-global-random-stream", "payload": {"pool": repr(pool)},
                    "what": f"one likelihood batch through {strat} (pool={pool!r}) advanced numpy's global random stream: runs under this evaluation mode "
                            "diverge from serial runs with the same seed"}
        if strat == "vectorized+pool-object":
            shapes = []

            class InProc2:
                def map(self, f, xs):
                    return [f(x_) for x_ in xs]

            def fb(xx):
                shapes.append(np.ndim(xx))
                xx = np.atleast_2d(xx)
                return -np.sum(xx ** 2, axis=1)
            smp = Sampler(lambda u: u, fb, n_dim=d, n_particles=2, clustering=False, vectorize=True, pool=InProc2())
            try:
                logl, _ = smp._core._log_like(np.arange(1, npts * d + 1, dtype=float).reshape(npts, d))
                err = None
            except Exception as e:
                logl, err = None, e
            bad = err is not None or any(sh != 2 for sh in shapes) or len(np.ravel(logl)) != npts
            return {"reproduced": bool(bad), "signature": "_log_like:vectorize+pool:batch-function-called-on-single-rows", "payload": {"ndim_of_each_call": shapes, "error": repr(err)},
                    "what": f"Sampler(vectorize=True, pool=<pool object>): the batch likelihood was called with arrays of ndim {shapes} (documented: one (n, d) batch)"
                            + (f" and raised {type(err).__name__}: {err}" if err is not None else "")}
        if strat == "pool-int":
            size = int(m.get("pool_size", 1))
            try:
                smp = Sampler(lambda u: u, lambda xr: -float(np.sum(xr ** 2)), n_dim=d, n_particles=2, pool=size, clustering=False)
                if size > 1:
                    return {"reproduced": False, "what": "pool sizes > 1 spawn real processes; not replayed"}
                smp._core._log_like(np.zeros((npts, d)))
            except AttributeError as e:
                return {"reproduced": True, "signature": f"_log_like:pool={size}:AttributeError", "payload": {"pool": size},
                        "what": f"Sampler(pool={size})._core._log_like(x) raises AttributeError: {e}"}
            return {"reproduced": False, "what": f"pool={size} works"}
        # order-sensitivity replay with concrete pool doubles: the completion order of the counterexample first, then every other
        # permutation of the batch (npts <= 3)
        import itertools as _it

        def model_order():
            remaining = list(range(npts))
            order = []
            for k in range(npts - 1):
                j = None
                for key, val in m.items():
                    if key.endswith(f"1_ord{k}"):
                        j = int(val)
                j = 0 if j is None else max(0, min(j, len(remaining) - 1))
                order.append(remaining.pop(j))
            return order + remaining
        orders = [tuple(model_order())] + [p_ for p_ in _it.permutations(range(npts))]
        seen = set()
        last = None
        for order in orders:
            if order in seen:
                continue
            seen.add(order)
            last = _replay_order(order)
            if last["reproduced"]:
                return last
        return last

    def _replay_order(order):
        class RevPool:
            def map(self, f, xs):
                xs = list(xs)
                r = {i: f(xs[i]) for i in order if i < len(xs)}
                return [r[i] for i in range(len(xs))]

            def imap(self, f, xs):
                return iter(self.map(f, xs))

            def imap_unordered(self, f, xs):
                xs = list(xs)
                return iter([f(xs[i]) for i in order if i < len(xs)])
        cnt = {"n": 0}

        def f(xr):
            cnt["n"] += 1
            return (-float(np.sum(xr ** 2)), float(np.sum(xr) * 7)) if blobs else -float(np.sum(xr ** 2))
        class RevExecutor(RevPool):
            """concurrent.futures-style pool whose tasks finish in the given order"""
            def submit(self, fn, *a, **k):
                import concurrent.futures as cf
                fut = cf.Future()
                self.pending = getattr(self, "pending", []) + [(fut, fn, a, k)]
                return fut

            def shutdown(self, wait=True):
                pass
        kw = dict(n_dim=d, n_particles=2, clustering=False)
        x = np.arange(1, npts * d + 1, dtype=float).reshape(npts, d)
        if strat == "vectorized":
            smp = Sampler(lambda u: u, lambda xx: (cnt.__setitem__("n", cnt["n"] + len(xx)), -np.sum(xx ** 2, axis=1))[1], vectorize=True, **kw)
        elif strat == "serial":
            smp = Sampler(lambda u: u, f, blobs_dtype="float64" if blobs else None, **kw)
        elif strat == "pool-executor":
            import concurrent.futures as cf
            ex = RevExecutor()
            smp = Sampler(lambda u: u, f, blobs_dtype="float64" if blobs else None, pool=ex, **kw)
            real_ac = cf.as_completed

            def ac(fs, timeout=None):
                fs = list(fs)
                pend = getattr(ex, "pending", [])
                for i in [i_ for i_ in order if i_ < len(pend)]:
                    fut, fn, a, k = pend[i]
                    fut.set_result(fn(*a, **k))
                    yield fut
            cf.as_completed = ac
            try:
                logl, bl = smp._core._log_like(x)
            finally:
                cf.as_completed = real_ac
        else:
            smp = Sampler(lambda u: u, f, blobs_dtype="float64" if blobs else None, pool=RevPool(), **kw)
        if strat != "pool-executor":
            logl, bl = smp._core._log_like(x)
        ref = -np.sum(x ** 2, axis=1)
        bad = (len(logl) != npts) or (not np.allclose(logl, ref)) or cnt["n"] != npts or \
              (blobs and strat != "vectorized" and (bl is None or not np.allclose(np.asarray(bl, dtype=float).reshape(-1), 7 * x.sum(axis=1))))
        return {"reproduced": bool(bad), "signature": f"_log_like:{strat}:wrong-values-or-count", "payload": {"logl": np.asarray(logl).tolist(), "expected": ref.tolist(), "evaluations": cnt["n"], "completion_order": list(order)},
                "what": f"_log_like({strat}, blobs={blobs}) on {x.tolist()} with tasks completing in the order {list(order)}: logl={np.asarray(logl).tolist()} expected {ref.tolist()}, {cnt['n']} evaluations"}

    return Obligation(f"loglike-{strat}-{'blobs' if blobs else 'noblobs'}-n{npts}", harness, replay=replay,
                      encodes=[core_mod.SamplerCore._log_like, core_mod.SamplerCore._get_distribute_func],
                      bounds=f"batch of {npts} points, d={d}, strategy {strat}" + (", pool size symbolic in [1,4]" if strat == "pool-int" else "")
                             + (", every completion order" if strat.startswith("pool") else ""),
                      stubs=["multiprocess.Pool -> contract double with symbolic completion order", "float() -> identity on symbolic reals",
                             "np.array(dtype=...) -> object array when the content is symbolic"], theory="QF_UFLIA")


# ------------------------------------------------------------------ paired mutation runs


def make_paired(stratA, stratB, phase, d=1, n=2, inf=False):
    """run Mutator.run under two evaluation strategies with the same random draws; compare states and call counts."""

    def one(ctx, strat, tag):
        cb = Callbacks(d, blobs=False, inf=inf)
        counter = {"points": 0}
        rec = []
        smp = build_sampler(ctx, cb, strat, False, counter, d=d, n=n, mp_record=rec)
        st = smp.state
        if phase == "warmup":
            st._current.update({"beta": 0.0, "calls": 7, "logz": 0.0, "iter": 1})
            ms = None
        else:
            u = [[real(ctx, f"u{k}_{j}", lo=0, hi=1) for j in range(d)] for k in range(n)]
            x = [cb.pt_terms(u[k]) for k in range(n)]
            logl = [cb.ll_term(x[k]) for k in range(n)]
            st._current.update({"u": sarr(u), "x": sarr(x), "logl": sarr(logl), "assignments": np.zeros(n, dtype=int),
                                "beta": real(ctx, "beta", lo=0, lo_strict=True, hi=1), "calls": 7, "iter": 3})
            ms = sym_mode_stats(ctx, d, 1, nu=3.0)
        stub = RandomStub(Draws(ctx), max_calls=n + 2)  # same symbol names in both runs => identical draws
        noadapt = lambda self, c, mean_accept: None
        saved = sys.modules.get("multiprocess")
        sys.modules["multiprocess"] = fake_multiprocess(ctx, rec)
        try:
            with exp_as_uf(), patched(core_mod, np=core_proxy(), float=lambda v: v), numpy_import_as(core_proxy()), \
                    patched(mcmc, np=mcmc_proxy(stub)), \
                    patched(mutate_mod, np=NpProxy(random=stub, overrides={"isinf": isinf_model})), \
                    patched_attr(mcmc.TPCNRunner, _adapt_sigma=noadapt, _check_convergence=lambda self, acc: True), patched_attr(mcmc.RWMRunner, _adapt_sigma=noadapt, _check_convergence=lambda self, acc: True):
                smp._core.mutator.run(ms)
        finally:
            if saved is not None:
                sys.modules["multiprocess"] = saved
            else:
                sys.modules.pop("multiprocess", None)
        return st._current, counter["points"]

    def harness(ctx: PathCtx):
        ca, pa = one(ctx, stratA, "A")
        cb_, pb = one(ctx, stratB, "B")
        conds = []
        la, lb = list(ca["logl"]), list(cb_["logl"])
        if any(isinstance(v, float) for v in la + lb):
            ctx.check("same-finite/-inf-pattern-of-stored-log-likelihoods", z3.BoolVal([isinstance(v, float) and v for v in la] == [isinstance(v, float) and v for v in lb]),
                      detail=[str(v)[:20] for v in la + lb])
            if all(isinstance(v, float) for v in la) or [isinstance(v, float) for v in la] != [isinstance(v, float) for v in lb]:
                return None
        for key in ("u", "x"):
            a, b = np.asarray(ca[key], dtype=object), np.asarray(cb_[key], dtype=object)
            ctx.check(f"same-shape-{key}", z3.BoolVal(a.shape == b.shape))
            conds += [eq(p, q) for p, q in zip(a.reshape(-1), b.reshape(-1))]
        conds += [eq(p, q) for p, q in zip(ca["logl"], cb_["logl"]) if not isinstance(p, float)]
        ctx.check("identical-particles-under-both-strategies", z3.And(*conds))
        ctx.check("calls==points-evaluated(A)", z3.BoolVal(ca["calls"] == 7 + pa))
        ctx.check("calls==points-evaluated(B)", z3.BoolVal(cb_["calls"] == 7 + pb))
        ctx.check("same-number-of-evaluations", z3.BoolVal(pa == pb))
        return None

    def replay(m, label, v):
        def scenario(kind):
            res = {}
            for strat in (stratA, stratB):
                cnt = {"n": 0}

                def fpt(xr):
                    cnt["n"] += 1
                    if inf and xr[0] < 0.5:
                        return -np.inf
                    return -float(np.sum((xr - 0.3) ** 2)) * 5

                def fb(xx):
                    cnt["n"] += len(xx)
                    out = -np.sum((xx - 0.3) ** 2, axis=1) * 5
                    return np.where(xx[:, 0] < 0.5, -np.inf, out) if inf else out
                kw = dict(n_dim=d, n_particles=n, clustering=False, sample="rwm", n_steps=1, n_max_steps=1)
                smp = Sampler(lambda u: u, fb, vectorize=True, **kw) if strat == "vectorized" else Sampler(lambda u: u, fpt, **kw)
                st = smp.state
                rng = np.random.RandomState(3)
                if phase == "warmup":
                    st.update_current({"beta": 0.0, "calls": 7, "logz": 0.0, "iter": 1})
                    ms = None
                else:
                    u = rng.rand(n, d)
                    st.update_current({"u": u, "x": u.copy(), "logl": -np.sum((u - 0.3) ** 2, axis=1) * 5,
                                       "assignments": np.zeros(n, dtype=int), "beta": 0.8, "calls": 7, "iter": 3})
                    from tempest.modes import ModeStatistics
                    ms = ModeStatistics(np.full((1, d), 0.4), (0.05 * np.eye(d)).reshape(1, d, d), np.array([3.0]))
                s0 = np.random.get_state()
                np.random.seed(11)
                real_randn = np.random.randn
                k = {"i": 0}

                def randn(*a):
                    k["i"] += 1
                    if kind == "all-out-of-bounds" or (kind == "mixed" and k["i"] % 2 == 1):
                        return np.full(a, 50.0)
                    return real_randn(*a) * 0.01
                try:
                    if phase == "mcmc" and kind != "natural":
                        np.random.randn = randn
                    with np.errstate(all="ignore"):
                        smp._core.mutator.run(ms)
                finally:
                    np.random.randn = real_randn
                    np.random.set_state(s0)
                res[strat] = (st.get_current(), cnt["n"])
            (ca, pa), (cb_, pb) = res[stratA], res[stratB]
            bad = (not np.array_equal(ca["u"], cb_["u"])) or (not np.array_equal(ca["logl"], cb_["logl"])) or \
                ca["calls"] != 7 + pa or cb_["calls"] != 7 + pb or bool(np.any(np.isinf(ca["logl"])) != np.any(np.isinf(cb_["logl"])))
            return bad, (int(ca["calls"]), int(cb_["calls"]), pa, pb, bool(np.array_equal(ca["u"], cb_["u"])))
        for kind in ("natural", "mixed", "all-out-of-bounds"):
            bad, info = scenario(kind)
            if bad:
                return {"reproduced": True, "signature": f"Mutator.run:{phase}:{label}",
                        "payload": {"scenario": kind, "calls": info[:2], "evaluated": info[2:4]},
                        "what": f"Mutator.run ({phase}, proposals: {kind}) under {stratA} vs {stratB}: calls {info[0]},{info[1]} vs 7 + evaluated points {info[2]},{info[3]}; "
                                f"states equal={info[4]}"}
        return {"reproduced": False, "what": "paired concrete runs (natural / mixed / all-out-of-bounds proposals) agree and count exactly"}

    return Obligation(f"paired-{phase}-{stratA}-vs-{stratB}{'-zero-likelihood-region' if inf else ''}", harness, replay=replay,
                      encodes=[mutate_mod.Mutator.run, core_mod.SamplerCore._log_like, mcmc.BaseMCMCRunner._evaluate_likelihood, mcmc.BaseMCMCRunner.run],
                      bounds=f"{n} particles, d={d}, one kernel iteration (rwm) / one prior batch, identical symbolic draws in both runs, <= 1 redraw",
                      stubs=["np.random.* -> shared symbolic draws", "_adapt_sigma -> no-op, _check_convergence -> True (one kernel iteration)", "float() -> identity", "multiprocess.Pool -> contract double"],
                      allow_bound="paths needing more proposal redraws than the draw budget are cut", theory="QF_UFNRA", max_paths=3000)


def make_resume_calls(strat):
    """calls reported after a resume == calls stored in the checkpoint + likelihood evaluations actually performed while loading."""
    import tempfile
    from pathlib import Path

    def harness(ctx: PathCtx):
        from vf.props.c08 import FakeFS, io_doubles
        cbA, cntA = Callbacks(1, blobs=False), {"points": 0}
        A = build_sampler(ctx, cbA, strat, False, cntA, d=1, n=2, mp_record=[])
        calls = integer(ctx, "calls_in_checkpoint", lo=0, hi=10 ** 6)
        u = np.array([[0.25], [0.75]])
        A.state.update_current({"u": u, "x": u.copy(), "logl": np.array([-1.0, -2.0]), "beta": 0.5, "logz": -0.5, "iter": 3, "calls": calls,
                                "ess": 2.0, "assignments": np.zeros(2, dtype=int), "steps": 1, "acceptance": 0.5, "efficiency": 1.0})
        A.state.commit_current_to_history()
        A._core.n_total = 8
        cbB, cntB = Callbacks(1, blobs=False), {"points": 0}
        B = build_sampler(ctx, cbB, strat, False, cntB, d=1, n=2, mp_record=[])
        fs = FakeFS()
        path = Path(tempfile.gettempdir()) / "vf_c13" / "ps_3.state"
        rs = np.random.get_state()
        saved = sys.modules.get("multiprocess")
        sys.modules["multiprocess"] = fake_multiprocess(ctx, [])
        try:
            with io_doubles(fs), warnings.catch_warnings():
                warnings.simplefilter("ignore")
                A.save_state(path)
                with patched(core_mod, float=lambda v: v):
                    B._core._initialize_from_resume(path)
        finally:
            np.random.set_state(rs)
            if saved is not None:
                sys.modules["multiprocess"] = saved
            else:
                sys.modules.pop("multiprocess", None)
        got = B.state._current["calls"]
        from vf.engine.real import SymInt
        ctx.check("saving-evaluates-nothing", z3.BoolVal(cntA["points"] == 0))
        ctx.check("calls-after-resume==calls-in-checkpoint+evaluations-performed-while-loading",
                  (SymInt.lift(got) == calls + cntB["points"]).z, detail={"evaluations_while_loading": cntB["points"]})
        return None

    def replay(m, label, v):
        import shutil
        tmp = tempfile.mkdtemp(prefix="vf_c13_")
        cnt = {"n": 0}

        def fpt(xr):
            cnt["n"] += 1
            return -float(np.sum((xr - 0.3) ** 2))

        def fb(xx):
            cnt["n"] += len(xx)
            return -np.sum((xx - 0.3) ** 2, axis=1)
        s0 = np.random.get_state()
        try:
            kw = dict(n_dim=1, n_particles=4, clustering=False, output_dir=tmp, random_state=1)
            mk = (lambda: Sampler(lambda u: u, fb, vectorize=True, **kw)) if strat == "vectorized" else (lambda: Sampler(lambda u: u, fpt, **kw))
            a = mk()
            a._core._initialize_fresh()
            for _ in range(3):
                a.sample()
            a.save_state(Path(tmp) / "ck.state")
            stored = int(a.state.get_current("calls"))
            before = cnt["n"]
            with warnings.catch_warnings():
                warnings.simplefilter("ignore")
                b = mk()
                b._core._initialize_from_resume(Path(tmp) / "ck.state")
            evaluated = cnt["n"] - before
            reported = int(b.state.get_current("calls"))
        finally:
            np.random.set_state(s0)
            shutil.rmtree(tmp, ignore_errors=True)
        bad = reported != stored + evaluated
        return {"reproduced": bool(bad), "signature": f"resume:{strat}:uncounted-likelihood-evaluations",
                "payload": {"calls_in_checkpoint": stored, "evaluations_while_loading": evaluated, "calls_after_resume": reported},
                "what": f"resuming ({strat}) evaluated the likelihood {evaluated} time(s) while loading but reports {reported} calls for a checkpoint that stored {stored}"}

    return Obligation(f"resume-calls-{strat}", harness, replay=replay,
                      encodes=[core_mod.SamplerCore.save_sampler_state, core_mod.SamplerCore.load_sampler_state, core_mod.SamplerCore._initialize_from_resume],
                      bounds="one stored iteration of 2 particles, symbolic stored call count in [0, 10^6], evaluation strategy " + strat,
                      stubs=["file system / dill -> by-value doubles (C08)", "likelihood -> counting uninterpreted callback"], theory="QF_LIA")


def make_resume_then_iterate(strat):
    """the reported count stays exact across a resume: a NEW sampler object resumes a checkpoint whose stored call count is symbolic and
    performs one more iteration; reported calls == stored count + the evaluations the new object performed (loading + the iteration).
    The likelihood is a concrete counting function (the iteration runs on numpy itself); only the stored count is symbolic."""
    import tempfile
    from pathlib import Path

    def mk(cnt):
        def fpt(xr):
            cnt["n"] += 1
            return -float(np.sum((xr - 0.3) ** 2))

        def fb(xx):
            cnt["n"] += len(xx)
            return -np.sum((xx - 0.3) ** 2, axis=1)
        kw = dict(n_dim=1, n_particles=4, clustering=False, random_state=1, n_steps=1, n_max_steps=2)
        return Sampler(lambda u: u, fb, vectorize=True, **kw) if strat == "vectorized" else Sampler(lambda u: u, fpt, **kw)

    def harness(ctx: PathCtx):
        from vf.props.c08 import FakeFS, io_doubles
        from vf.engine.real import SymInt
        calls = integer(ctx, "calls_in_checkpoint", lo=0, hi=10 ** 6)
        rs = np.random.get_state()
        fs = FakeFS()
        path = Path(tempfile.gettempdir()) / "vf_c13" / "ps_2.state"
        try:
            with io_doubles(fs), warnings.catch_warnings():
                warnings.simplefilter("ignore")
                cntA = {"n": 0}
                A = mk(cntA)
                A._core._initialize_fresh()
                for _ in range(2):
                    A.sample()
                A.state.set_current("calls", calls)
                A.save_state(path)
                cntB = {"n": 0}
                B = mk(cntB)
                B._core._initialize_from_resume(path)
                B.sample()
        finally:
            np.random.set_state(rs)
        got = B.state._current["calls"]
        ctx.check("calls-after-a-resumed-iteration==stored-count+evaluations-of-the-new-object",
                  (SymInt.lift(got) == calls + cntB["n"]).z, detail={"evaluations_of_the_resuming_object": cntB["n"], "reported": str(got)})
        hist = B.state._history["calls"]
        ctx.check("calls-history-never-decreases-at-the-resume-point", (SymInt.lift(hist[-1]) >= SymInt.lift(calls)).z if len(hist) else z3.BoolVal(True))
        return None

    def replay(m, label, v):
        import shutil
        tmp = tempfile.mkdtemp(prefix="vf_c13_")
        s0 = np.random.get_state()
        try:
            with warnings.catch_warnings():
                warnings.simplefilter("ignore")
                cntA, cntB = {"n": 0}, {"n": 0}
                a = mk(cntA)
                a._core._initialize_fresh()
                for _ in range(2):
                    a.sample()
                a.save_state(Path(tmp) / "ck.state")
                stored = int(a.state.get_current("calls"))
                b = mk(cntB)
                b._core._initialize_from_resume(Path(tmp) / "ck.state")
                b.sample()
                reported = int(b.state.get_current("calls"))
        finally:
            np.random.set_state(s0)
            shutil.rmtree(tmp, ignore_errors=True)
        bad = reported != stored + cntB["n"]
        return {"reproduced": bool(bad), "signature": f"resume:{strat}:calls-not-carried-over-the-resume",
                "payload": {"calls_in_checkpoint": stored, "evaluations_of_the_resuming_object": cntB["n"], "calls_after_one_resumed_iteration": reported},
                "what": f"a new sampler resumed a checkpoint with {stored} calls, evaluated the likelihood at {cntB['n']} points (loading + one iteration) and reports {reported} calls"}

    return Obligation(f"resume-then-iterate-calls-{strat}", harness, replay=replay,
                      encodes=[core_mod.SamplerCore.save_sampler_state, core_mod.SamplerCore.load_sampler_state, core_mod.SamplerCore._initialize_from_resume,
                               core_mod.SamplerCore.execute_iteration],
                      bounds="two real iterations of 4 particles (d=1, concrete target), symbolic stored call count in [0, 10^6], one resumed iteration in a new object, strategy " + strat,
                      stubs=["file system / dill -> by-value doubles (C08)", "likelihood -> concrete counting function"], theory="QF_LIA")


def make_output_kind():
    """a pointwise identical likelihood may hand back its values in another container: single precision, or a read-only array (a view
    of a device buffer). The evaluation strategy must not leak that into the algorithm: the log-likelihoods the sampler works with are
    float64 and writable under every strategy, and equal bit for bit."""
    X = np.array([[0.3], [0.8], [0.55]])

    def build(kind):
        def point(xr):
            return np.float32(-np.sum((np.asarray(xr) - 0.25) ** 2))

        def batch(xx):
            out = np.array([point(r) for r in xx], dtype=np.float32)
            if kind == "readonly":
                out = out.astype(np.float64)
                out.setflags(write=False)
            return out
        kw = dict(n_dim=1, n_particles=3, clustering=False)
        return (Sampler(lambda u: u, batch, vectorize=True, **kw), Sampler(lambda u: u, lambda xr: float(point(xr)) if kind == "readonly" else point(xr), **kw))

    def verdicts():
        out = []
        for kind in ("float32", "readonly"):
            sv, ss = build(kind)
            lv, _ = sv._core._log_like(X.copy())
            ls, _ = ss._core._log_like(X.copy())
            lv, ls = np.asarray(lv), np.asarray(ls)
            out.append((f"{kind}:vectorised-and-pointwise-values-are-the-same-float64-numbers", bool(lv.dtype == np.float64 and ls.dtype == np.float64 and lv.tobytes() == ls.tobytes()),
                        {"dtype_vectorised": str(lv.dtype), "dtype_pointwise": str(ls.dtype)}))
            out.append((f"{kind}:values-handed-to-the-sampler-are-writable-under-both-strategies", bool(lv.flags.writeable and ls.flags.writeable), None))
        return out

    def harness(ctx: PathCtx):
        for label, ok, detail in verdicts():
            ctx.check(label, z3.BoolVal(ok), detail=detail)
        x = integer(ctx, "dummy", lo=0, hi=0)
        return None

    def replay(m, label, v):
        bad = [(l_, d_) for l_, ok, d_ in verdicts() if not ok]
        # end to end: same seed, same likelihood values, vectorised float32 vs pointwise
        s0 = np.random.get_state()
        try:
            def ll_b(xx):
                return (-np.sum((xx - 0.4) ** 2, axis=1) * 20).astype(np.float32)
            a = Sampler(lambda u: u, ll_b, n_dim=2, n_particles=16, vectorize=True, clustering=False, random_state=3)
            b = Sampler(lambda u: u, lambda xr: ll_b(xr[None, :])[0], n_dim=2, n_particles=16, clustering=False, random_state=3)
            with warnings.catch_warnings():
                warnings.simplefilter("ignore")
                a.run(n_total=64, progress=False)
                b.run(n_total=64, progress=False)
            za, zb = float(a.evidence()[0]), float(b.evidence()[0])
        finally:
            np.random.set_state(s0)
        return {"reproduced": bool(bad) or za != zb, "signature": "_log_like:vectorised-output-passed-through-untouched", "payload": {"violated": [b_[0] for b_ in bad], "logz_vectorised": za, "logz_pointwise": zb},
                "what": f"a likelihood returning single-precision values: under vectorize=True the sampler works with {bad[0][1] if bad and bad[0][1] else 'the user array itself'}; "
                        f"same seed, same likelihood: evidence {za!r} (vectorised) vs {zb!r} (pointwise)"}

    return Obligation("loglike-output-kind", harness, replay=replay, encodes=[core_mod.SamplerCore._log_like],
                      bounds="3 concrete points; likelihood returning float32 values / a read-only float64 array; vectorised and pointwise strategies",
                      stubs=[], theory="QF_LIA")


def obligations(tier):
    obs = []
    for strat in STRATS:
        for blobs in ((False, True) if not strat.startswith("vectorized") else (False,)):
            obs.append(make_loglike(strat, blobs, 3 if tier == "quick" else 3))
    obs += [make_paired("vectorized", "serial", "warmup"), make_paired("vectorized", "serial", "warmup", inf=True), make_paired("serial", "pool-object", "mcmc"),
            make_paired("vectorized", "serial", "mcmc"), make_resume_calls("serial"), make_resume_calls("vectorized"), make_resume_then_iterate("serial"), make_resume_then_iterate("vectorized"), make_output_kind()]
    if tier == "thorough":
        obs += [make_paired("vectorized", "pool-object", "warmup"), make_paired("serial", "pool-int", "mcmc"),
                make_paired("vectorized", "pool-object", "mcmc", d=1, n=3), make_loglike("pool-object", True, 4), make_loglike("pool-int", False, 4)]
    return obs
