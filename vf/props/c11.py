"""C11 - zero-likelihood prior regions are excluded and counted exactly once."""
from __future__ import annotations

import math
from fractions import Fraction

import numpy as np
import z3

import tempest.core as core_mod
import tempest.state_manager as sm_mod
import tempest.steps.mutate as mutate_mod
import tempest.steps.reweight as rw_mod
from tempest.sampler import Sampler

from vf.engine.core import PathCtx, PathInfeasible, SymBool
from vf.engine.harness import Obligation
from vf.engine.real import LogVal, SymReal
from vf.engine.arr import NpProxy, RandomStub, patched, sarr
from vf.engine.util import real, eq, le, lt, boolean
from vf.props.mcmc_common import Draws, isinf_model
from vf.props.c13 import core_proxy, numpy_import_as

PROPERTY_ID = "C11"
ASSUMPTIONS = [
    "each prior draw's likelihood is -inf or finite according to a symbolic Boolean (all subsets explored by forking); "
    "finite values are arbitrary (symbolic log-domain atoms)",
    "at most 2 consecutive prior batches without a single supported draw are followed (a third one is cut: stated bound); "
    "the supported fraction of an iteration is (finite draws) / (all draws of that iteration, including batches drawn again)",
    "convergence of the final evidence to the integral over the supported region is statistical and outside the claim",
]


def make_warmup_run(n, W, dynamic=False):
    def build(ctx, flags_concrete=None):
        state = {"draw": 0, "fhat": [], "batches": []}

        def loglike(x):
            x = np.asarray(x, dtype=object)
            out = []
            nfin = 0
            for i in range(x.shape[0]):
                k = state["draw"]
                state["draw"] += 1
                if bool(boolean(ctx, f"inf{k}")):
                    out.append(float("-inf"))
                else:
                    nfin += 1
                    out.append(LogVal.atom(f"l{k}", 1))
            state["dry"] = state.get("dry", 0) + 1 if nfin == 0 else 0
            if state["dry"] > 2:
                raise PathInfeasible()  # stated bound on consecutive unsupported batches
            state["batches"].append((nfin, x.shape[0]))
            return sarr(out)

        smp = Sampler(lambda u: u, loglike, n_dim=1, n_particles=n, ess_ratio=float(W + 2), vectorize=True, clustering=False,
                      volume_variation=(0.5 if dynamic else None))
        return smp, state

    def harness(ctx: PathCtx):
        smp, state = build(ctx)
        smp._core._initialize_fresh()
        stub = RandomStub(Draws(ctx), max_calls=5 * W + 4)
        from vf.props.c05 import max_model
        vv_stub = (lambda u, w: 0.25) if dynamic else rw_mod.volume_variation  # warm-up never advances: the metric value is irrelevant
        with patched(sm_mod, np=NpProxy(exact_log=True)), patched(core_mod, np=core_proxy()), numpy_import_as(core_proxy()), \
                patched(rw_mod, np=NpProxy(exact_log=True, overrides={"max": max_model, "isfinite": lambda v: True}), volume_variation=vv_stub), \
                patched(mutate_mod, np=NpProxy(random=stub, exact_log=True, overrides={"isinf": isinf_model})):
            for it in range(W):
                k0 = len(state["batches"])
                try:
                    smp.sample()
                except (ValueError, FloatingPointError, ZeroDivisionError) as e:
                    ctx.fail("warm-up-iteration-completes", f"{type(e).__name__}: {e}")
                    return None
                got = state["batches"][k0:]
                state["fhat"].append(Fraction(sum(a for a, _ in got), sum(b for _, b in got)))
                beta = smp.state._current["beta"]
                ctx.check(f"iteration-{it + 1}-is-warm-up(beta==0)", eq(beta, 0))
        st = smp.state
        logz_hist = st._history["logz"]
        logl_hist = st._history["logl"]
        ninf = sum(1 for b in logl_hist for v in b if isinstance(v, float))
        r0 = ctx.check("no-minus-inf-stored", z3.BoolVal(ninf == 0), detail={"stored_minus_inf": ninf, "supported_per_iteration": [str(f) for f in state["fhat"]]})
        ctx.check("one-batch-per-iteration", z3.BoolVal(len(logz_hist) == W and all(len(b) == n for b in logl_hist)))
        fh = state["fhat"]
        if ninf:
            return [str(f) for f in fh]
        for t in range(len(logz_hist)):
            lz = logz_hist[t]
            if isinstance(lz, float) and math.isinf(lz):
                ctx.fail(f"warmup-logz[{t}]-within-batch-fractions", "recorded evidence is -inf")
                continue
            e = lz.exp() if isinstance(lz, LogVal) else SymReal.const(Fraction(math.exp(lz)) if lz != 0 else 1)
            lo, hi = min(fh[: t + 1]), max(fh[: t + 1])
            ctx.check(f"warmup-logz[{t}]-within-batch-fractions", z3.And(le(lo, e), le(e, hi)), detail=[str(f) for f in fh[: t + 1]])
            if len(set(fh[: t + 1])) == 1:
                ctx.check(f"warmup-logz[{t}]==log-supported-fraction", eq(e, fh[0]))
        ctx.notes["fhat"] = [str(f) for f in fh]
        return [str(f) for f in fh]

    def replay(m, label, v):
        flags = []
        k = 0
        while f"inf{k}" in m:
            flags.append(bool(m[f"inf{k}"]))
            k += 1
        cnt = {"i": 0}
        batches = []

        def loglike(x):
            out = []
            for i in range(len(x)):
                j = cnt["i"]
                cnt["i"] += 1
                out.append(-np.inf if (j < len(flags) and flags[j]) else -0.5 * (j % 3))
            batches.append((sum(1 for v_ in out if np.isfinite(v_)), len(out)))
            return np.array(out)
        smp = Sampler(lambda u: u, loglike, n_dim=1, n_particles=n, ess_ratio=float(W + 2), vectorize=True, clustering=False,
                      volume_variation=(0.5 if dynamic else None))
        smp._core._initialize_fresh()
        s0 = np.random.get_state()
        np.random.seed(0)
        fh, err = [], None
        try:
            with np.errstate(all="ignore"):
                for it in range(W):
                    k0 = len(batches)
                    smp.sample()
                    got = batches[k0:]
                    fh.append(sum(a for a, _ in got) / max(1, sum(b for _, b in got)))
        except Exception as e:
            err = e
        finally:
            np.random.set_state(s0)
        lz = [float(z) for z in smp.state.get_history("logz")]
        bad = err is not None
        for t in range(min(len(lz), len(fh))):
            lo, hi = min(fh[: t + 1]), max(fh[: t + 1])
            if not (math.isfinite(lz[t]) and lo - 1e-12 <= math.exp(lz[t]) <= hi + 1e-12):
                bad = True
        hist = smp.state.get_history("logl", flat=True)
        stored_inf = int(np.sum(np.isinf(hist))) if len(hist) else 0
        if label == "no-minus-inf-stored":
            bad = stored_inf > 0
        sig = "warmup-logz:compounded" if label.startswith("warmup-logz") else f"warmup:{label}"
        if stored_inf:
            sig = "warmup:unsupported-batch-stored"
        return {"reproduced": bool(bad), "signature": sig,
                "payload": {"inf_flags": flags, "iteration_fractions": fh, "logz_history": lz, "stored_minus_inf": stored_inf, "error": repr(err)},
                "what": f"{W} warm-up iterations of {n} draws with -inf pattern {flags}: supported fractions per iteration {fh}, "
                        f"recorded logz = {[round(z, 6) for z in lz]}, {stored_inf} particle(s) with log-likelihood -inf stored"
                        + (f", raised {type(err).__name__}: {err}" if err is not None else "")}

    return Obligation(f"warmup-n{n}-W{W}{'-dynamic' if dynamic else ''}", harness, replay=replay,
                      encodes=[core_mod.SamplerCore.execute_iteration, rw_mod.Reweighter.run, mutate_mod.Mutator.run,
                               sm_mod.StateManager.compute_logw_and_logz, sm_mod.StateManager.commit_current_to_history],
                      bounds=f"n_particles={n}, W={W} consecutive warm-up iterations, every -inf pattern (at most 2 consecutive batches without a supported draw), "
                             "all replacement index choices",
                      stubs=["np.random.rand/choice -> symbolic draws", "np.log of int ratios -> exact", "np.max -> fresh m (no fork)"],
                      theory="QF_NRA", timeout_ms=20000, max_paths=60000)


def make_warmup_resume(n, W1, W2):
    """W1 warm-up iterations, checkpoint, a *new* sampler resumes from the checkpoint and performs W2 more warm-up iterations:
    the zero-likelihood fraction must still be counted once (nothing remembered outside the checkpointed state may enter)."""
    from pathlib import Path
    import tempfile
    from vf.props.c08 import FakeFS, io_doubles

    base = make_warmup_run(n, W1 + W2)

    def harness(ctx: PathCtx):
        state = {"draw": 0, "fhat": []}

        def loglike(x):
            x = np.asarray(x, dtype=object)
            out, nfin = [], 0
            for i in range(x.shape[0]):
                k = state["draw"]
                state["draw"] += 1
                if bool(boolean(ctx, f"inf{k}")):
                    out.append(float("-inf"))
                else:
                    nfin += 1
                    out.append(LogVal.atom(f"l{k}", 1))
            if nfin == 0:
                raise PathInfeasible()
            state["fhat"].append(Fraction(nfin, x.shape[0]))
            return sarr(out)

        def mk():
            return Sampler(lambda u: u, loglike, n_dim=1, n_particles=n, ess_ratio=float(W1 + W2 + 2), vectorize=True, clustering=False,
                           output_dir=tempfile.gettempdir())
        from vf.props.c05 import max_model
        stub = RandomStub(Draws(ctx), max_calls=5 * (W1 + W2) + 4)
        fs = FakeFS()
        path = Path(tempfile.gettempdir()) / "vf_c11" / "ps_1.state"
        with patched(sm_mod, np=NpProxy(exact_log=True)), patched(core_mod, np=core_proxy()), numpy_import_as(core_proxy()), \
                patched(rw_mod, np=NpProxy(exact_log=True, overrides={"max": max_model, "isfinite": lambda v: True})), \
                patched(mutate_mod, np=NpProxy(random=stub, exact_log=True, overrides={"isinf": isinf_model})):
            A = mk()
            A._core._initialize_fresh()
            for it in range(W1):
                A.sample()
            with io_doubles(fs):
                A.save_state(path)
                B = mk()
                rs = np.random.get_state()
                try:
                    B._core._initialize_from_resume(path)
                finally:
                    np.random.set_state(rs)
            for it in range(W2):
                B.sample()
                ctx.check(f"resumed-iteration-{it + 1}-is-warm-up(beta==0)", eq(B.state._current["beta"], 0))
        st = B.state
        logz_hist, logl_hist = st._history["logz"], st._history["logl"]
        ctx.check("resumed-history-has-every-iteration", z3.BoolVal(len(logz_hist) == W1 + W2 and all(len(b) == n for b in logl_hist)),
                  detail={"batches": len(logz_hist)})
        ctx.check("no-minus-inf-stored", z3.BoolVal(sum(1 for b in logl_hist for v in b if isinstance(v, float)) == 0))
        fh = state["fhat"]
        for t in range(len(logz_hist)):
            lz = logz_hist[t]
            e = lz.exp() if isinstance(lz, LogVal) else SymReal.const(Fraction(math.exp(lz)) if lz != 0 else 1)
            lo, hi = min(fh[: t + 1]), max(fh[: t + 1])
            ctx.check(f"warmup-logz[{t}]-within-batch-fractions", z3.And(le(lo, e), le(e, hi)), detail=[str(f) for f in fh[: t + 1]])
        return [str(f) for f in fh]

    def replay(m, label, v):
        import shutil
        flags, k = [], 0
        while f"inf{k}" in m:
            flags.append(bool(m[f"inf{k}"]))
            k += 1
        cnt = {"i": 0}

        def loglike(x):
            out = []
            for i in range(len(x)):
                j = cnt["i"]
                cnt["i"] += 1
                out.append(-np.inf if (j < len(flags) and flags[j]) else -0.5 * (j % 3))
            return np.array(out)
        tmp = tempfile.mkdtemp(prefix="vf_c11_")
        s0 = np.random.get_state()
        try:
            np.random.seed(0)
            mk = lambda: Sampler(lambda u: u, loglike, n_dim=1, n_particles=n, ess_ratio=float(W1 + W2 + 2), vectorize=True, clustering=False, output_dir=tmp)
            A = mk()
            A._core._initialize_fresh()
            for it in range(W1):
                A.sample()
            A.save_state(Path(tmp) / "ck.state")
            B = mk()
            B._core._initialize_from_resume(Path(tmp) / "ck.state")
            for it in range(W2):
                B.sample()
            lz = [float(z) for z in B.state.get_history("logz")]
            stored_inf = bool(np.any(np.isinf(B.state.get_history("logl", flat=True))))
        finally:
            np.random.set_state(s0)
            shutil.rmtree(tmp, ignore_errors=True)
        fh = []
        for t in range(W1 + W2):
            fl = flags[t * n:(t + 1) * n] + [False] * n
            fh.append(1 - sum(fl[:n]) / n)
        bad = len(lz) != W1 + W2
        for t in range(min(len(lz), W1 + W2)):
            lo, hi = min(fh[: t + 1]), max(fh[: t + 1])
            if not (lo - 1e-12 <= math.exp(lz[t]) <= hi + 1e-12):
                bad = True
        if label == "no-minus-inf-stored":
            bad = stored_inf
        return {"reproduced": bool(bad), "signature": "warmup-logz:wrong-after-resume" if label.startswith("warmup-logz") else f"warmup-resume:{label}",
                "payload": {"inf_flags": flags, "batch_fractions": fh, "logz_history": lz},
                "what": f"{W1} warm-up iterations, save, resume in a new sampler, {W2} more warm-up iterations of {n} draws with -inf pattern {flags}: "
                        f"supported fractions {fh}, recorded exp(logz) = {[round(math.exp(z), 6) for z in lz]}"}

    return Obligation(f"warmup-resume-n{n}-W{W1}+{W2}", harness, replay=replay,
                      encodes=[core_mod.SamplerCore.execute_iteration, core_mod.SamplerCore.save_sampler_state, core_mod.SamplerCore.load_sampler_state,
                               mutate_mod.Mutator.run, rw_mod.Reweighter.run, sm_mod.StateManager.compute_logw_and_logz],
                      bounds=f"n_particles={n}, {W1} warm-up iterations before and {W2} after a checkpoint/resume into a new sampler, every -inf pattern with >= 1 finite "
                             "draw per batch, all replacement index choices",
                      stubs=["np.random.rand/choice -> symbolic draws", "file system / dill -> by-value doubles (C08)", "np.log of int ratios -> exact"],
                      theory="QF_NRA", timeout_ms=20000, max_paths=60000)


def make_kernel_zero_region(kernel, n=1):
    """one real kernel iteration at beta > 0 when proposals may land where the likelihood is zero: such a proposal has acceptance
    probability exactly 0 and must be rejected for *every* value of the uniform variate in [0,1) (including 0.0), so that no
    particle with log-likelihood -inf reaches the stored state."""
    import tempest.mcmc as mcmc
    from tempest.state_manager import StateManager
    from vf.engine.arr import patched_attr
    from vf.props.mcmc_common import Callbacks, exp_as_uf, mcmc_proxy, sym_mode_stats
    from vf.props.c07 import coherent_state
    d = 1

    def harness(ctx: PathCtx):
        cb = Callbacks(d, blobs=False, inf=True)
        cb0 = Callbacks(d, blobs=False, inf=False)
        u, x, logl, _ = coherent_state(ctx, cb0, n, d, with_blobs=False)  # current particles are supported (finite log-likelihood)
        st = StateManager(n_dim=d)
        beta = real(ctx, "beta", lo=0, lo_strict=True, hi=1)
        st._current.update({"u": sarr(u), "x": sarr(x), "logl": sarr(logl), "blobs": None, "assignments": np.zeros(n, dtype=int),
                            "beta": beta, "calls": 10, "iter": 2})
        ms = sym_mode_stats(ctx, d, 1, nu=3.0)
        mut = mutate_mod.Mutator(state=st, prior_transform=cb.prior_transform, log_likelihood=cb.log_likelihood, pbar=None,
                                 n_particles=n, n_dim=d, n_steps=1, n_max_steps=1, sampler=kernel)
        stub = RandomStub(Draws(ctx), max_calls=(2 if kernel == "tpcn" else 1) * n + 2)
        noadapt = lambda self, c, mean_accept: None
        with exp_as_uf(), patched(mcmc, np=mcmc_proxy(stub)), patched_attr(mcmc.TPCNRunner, _adapt_sigma=noadapt, _check_convergence=lambda self, acc: True), \
                patched_attr(mcmc.RWMRunner, _adapt_sigma=noadapt, _check_convergence=lambda self, acc: True):
            mut.run(ms)
        stored = list(st._current["logl"])
        ninf = sum(1 for v in stored if isinstance(v, float) and math.isinf(v))
        ctx.check("no-minus-inf-stored-after-a-kernel-step", z3.BoolVal(ninf == 0), detail={"stored_minus_inf": ninf})
        return None

    def replay(m, label, v):
        """real kernel, a likelihood that is -inf on half of the cube, uniform variates forced to the model's value (and to 0.0)"""
        from tempest.modes import ModeStatistics
        from vf.engine.util import scripted_random
        cands = [float(x_) for k_, x_ in m.items() if k_.startswith("rand") and not isinstance(x_, (bool, str))] + [0.0]
        for uval in cands:
            def ll(x):
                x = np.atleast_2d(x)
                out = -np.sum((x - 0.3) ** 2, axis=1)
                return np.where(x[:, 0] > 0.5, -np.inf, out), None
            for seed in range(40):
                rng = np.random.RandomState(seed)
                u0 = rng.uniform(0.3, 0.5, size=(n, d))
                st = StateManager(n_dim=d)
                st.update_current({"u": u0, "x": u0.copy(), "logl": ll(u0)[0], "blobs": None, "assignments": np.zeros(n, dtype=int), "beta": 0.5, "calls": 10, "iter": 2})
                ms = ModeStatistics(np.full((1, d), 0.6), (0.05 * np.eye(d)).reshape(1, d, d), np.array([3.0]))
                mut = mutate_mod.Mutator(state=st, prior_transform=lambda q: q, log_likelihood=ll, pbar=None, n_particles=n, n_dim=d, n_steps=1, n_max_steps=1, sampler=kernel)
                s0 = np.random.get_state()
                np.random.seed(seed)
                try:
                    with scripted_random(rand=lambda *a: np.full(a, uval)), np.errstate(all="ignore"):
                        mut.run(ms)
                finally:
                    np.random.set_state(s0)
                if np.any(np.isinf(st.get_current("logl"))):
                    return {"reproduced": True, "signature": f"kernel:{kernel}:zero-likelihood-proposal-accepted", "payload": {"uniform_variate": uval, "seed": seed},
                            "what": f"{kernel} step with the uniform variate equal to {uval!r}: a proposal with log-likelihood -inf (acceptance probability 0) was accepted and stored"}
        return {"reproduced": False, "what": "zero-likelihood proposals were rejected for the model's uniform variate and for 0.0"}

    return Obligation(f"kernel-zero-region-{kernel}-n{n}", harness, replay=replay,
                      encodes=[mutate_mod.Mutator.run, mcmc.BaseMCMCRunner.run],
                      bounds=f"one kernel iteration, {n} walker(s), d=1, symbolic zero-likelihood region (uninterpreted predicate of the point), all uniform variates in [0,1)",
                      stubs=["np.random.* -> symbolic draws", "callbacks -> uninterpreted functions; LL returns -inf where the predicate holds", "np.exp -> uninterpreted on reals, exp(-inf) = 0",
                             "_adapt_sigma -> no-op, _check_convergence -> True"], allow_bound="paths needing more proposal draws than the budget are cut",
                      theory="QF_UFNRA", timeout_ms=20000, max_paths=3000)


def obligations(tier):
    # "no -inf particle is ever stored" also for runs whose likelihood returns blobs: the warm-up step with blobs is C07's obligation
    # (records stay coherent AND no -inf row is stored); imported here because the clause is C11's
    from vf.props.c07 import make_warmup as warmup_records
    if tier == "quick":
        return [make_warmup_run(2, 2), make_warmup_run(2, 3), make_warmup_run(3, 2), make_warmup_run(2, 3, dynamic=True), make_warmup_resume(2, 1, 2), make_kernel_zero_region("rwm"), make_kernel_zero_region("tpcn"),
                warmup_records(2, 1, True)]
    return [make_warmup_run(2, 2), make_warmup_run(2, 3), make_warmup_run(3, 2), make_warmup_run(3, 3),
            make_warmup_run(2, 3, dynamic=True), make_warmup_run(3, 2, dynamic=True), make_warmup_resume(2, 1, 2), make_warmup_resume(2, 2, 2), make_warmup_resume(3, 1, 1),
            make_kernel_zero_region("rwm"), make_kernel_zero_region("tpcn"), make_kernel_zero_region("rwm", n=2), warmup_records(2, 1, True), warmup_records(2, 2, True)]
