"""C09 - seeded runs are reproducible and the library never resets the global RNG."""
from __future__ import annotations

import os
import warnings

import numpy as np
import z3

import tempest.cluster as cluster_mod
import tempest.core as core_mod
import tempest.mcmc as mcmc_mod
import tempest.modes as modes_mod
import tempest.steps.mutate as mutate_mod
import tempest.steps.resample as resample_mod
import tempest.steps.train as train_mod
import tempest.tools as tools_mod
from tempest.cluster import GaussianMixture, HierarchicalGaussianMixture
from tempest.sampler import Sampler

from vf.engine.core import PathCtx
from vf.engine.harness import Obligation
from vf.engine.real import SymInt
from vf.engine.arr import NpProxy, patched
from vf.engine.util import integer

PROPERTY_ID = "C09"
ASSUMPTIONS = [
    "the numpy global stream is an abstract state: seed: Int -> State (injective), next: State -> State; every global draw advances it; "
    "draw *values* are concrete (a real RandomState) so that EM etc. run on stock numpy, the *state term* is symbolic (concolic)",
    "data sets / sampler configurations are a handful of concrete ones; seeds and the initial stream state are universally quantified",
    "bit-identity of floating-point results across platforms is outside the claim",
]

State = z3.DeclareSort("RngState")
SEED = z3.Function("seed", z3.IntSort(), State)
NEXT = z3.Function("next", State, State)
MODULES = [cluster_mod, core_mod, mcmc_mod, modes_mod, mutate_mod, resample_mod, train_mod, tools_mod]


class LocalGen:
    """np.random.RandomState(seed) double: a private generator; never touches the global stream. It counts its draws, so that
    a generator that outlives one operation (hidden state shared between fits / runs) is visible."""

    def __init__(self, owner, seed):
        self.owner = owner
        if seed is None:
            owner.unseeded_entropy.append("RandomState(None)")
            seed = 0
        self.rs = np.random.RandomState(int(seed) if not isinstance(seed, SymInt) else 4242)
        self.draws = 0
        self.epoch = owner.epoch
        owner.local_gens.append(self)

    def __getattr__(self, name):
        attr = getattr(self.rs, name)
        if callable(attr) and name in ("rand", "randn", "random", "random_sample", "choice", "gamma", "normal", "uniform", "randint", "permutation", "shuffle"):
            def wrapped(*a, **k):
                if self.epoch != self.owner.epoch and self.draws > 0:
                    self.owner.stale_private_generator.append(f"RandomState seeded in operation {self.epoch} reused at position {self.draws} in operation {self.owner.epoch}")
                self.draws += 1
                return attr(*a, **k)
            return wrapped
        return attr


# StreamStub.get_state() hands out ("VF_STATE", concrete generator state, index of the symbolic stream term in force): a plain picklable
# tuple, so that it can travel through a checkpoint
SAVED_TERMS = []


class StreamStub:
    """the global np.random of every tempest module, threaded as a symbolic state term."""

    def __init__(self, s0, concrete_seed=1234):
        self.term = s0
        self.rs = np.random.RandomState(concrete_seed)
        self.first_draw_term = None
        self.n_draws = 0
        self.seed_calls = []
        self.unseeded_entropy = []
        self.local_gens = []
        self.stale_private_generator = []
        self.epoch = 0  # the harness bumps this between two library operations that must not share hidden random state

    def _adv(self):
        if self.first_draw_term is None:
            self.first_draw_term = self.term
        self.term = NEXT(self.term)
        self.n_draws += 1

    def seed(self, s=None):
        if s is None:
            self.unseeded_entropy.append("seed(None)")
            return
        if isinstance(s, SymInt):
            self.term = SEED(s.z)
            self.rs = np.random.RandomState(99)
        else:
            self.term = SEED(z3.IntVal(int(s)))
            self.rs = np.random.RandomState(int(s))
        self.seed_calls.append(s)

    def rand(self, *a):
        self._adv()
        return self.rs.rand(*a)

    def random(self, *a, **k):
        self._adv()
        return self.rs.random_sample(*a, **k)


    def random_sample(self, *a, **k):
        return self.random(*a, **k)

    def randn(self, *a):
        self._adv()
        return self.rs.randn(*a)

    def gamma(self, *a, **k):
        self._adv()
        return self.rs.gamma(*a, **k)

    def choice(self, *a, **k):
        self._adv()
        return self.rs.choice(*a, **k)

    def RandomState(self, seed=None):
        return LocalGen(self, seed)

    def default_rng(self, seed=None):
        if seed is None:
            self.unseeded_entropy.append("default_rng(None)")
        return np.random.default_rng(0 if seed is None else seed)

    def get_state(self, *a, **k):
        SAVED_TERMS.append(self.term)
        return ("VF_STATE", self.rs.get_state(), len(SAVED_TERMS) - 1)

    def set_state(self, st):
        if isinstance(st, tuple) and len(st) == 3 and st[0] == "VF_STATE" and 0 <= st[2] < len(SAVED_TERMS):
            self.rs.set_state(st[1])
            self.term = SAVED_TERMS[st[2]]  # the stream continues from the state that was captured
        else:
            self.rs.set_state(st)


class threaded:
    def __init__(self, stub):
        self.stub = stub

    def __enter__(self):
        stub = self.stub

        def vf_hash(obj):
            """builtin hash as seen by the library: hashing text is salted per interpreter process (PYTHONHASHSEED), i.e. an
            entropy source outside every seed; numbers and tuples of numbers hash deterministically."""
            def salted(o):
                if isinstance(o, (str, bytes)):
                    return True
                if isinstance(o, (tuple, frozenset)):
                    return any(salted(e) for e in o)
                return False
            if salted(obj):
                stub.unseeded_entropy.append("hash() of text: salted per interpreter process")
            return hash(obj)
        self.cs = [patched(m, np=NpProxy(random=self.stub), hash=vf_hash) for m in MODULES]
        for c in self.cs:
            c.__enter__()

    def __exit__(self, *a):
        for c in reversed(self.cs):
            c.__exit__(*a)


def depends_on_initial(ctx, label, final_term, s0):
    """'the stream after the operation still depends on the stream before it':
    final(S0) != final(S0') must be satisfiable; unsat <=> the operation reset the stream to a constant."""
    s0b = z3.Const("S0_other", State)
    other = z3.substitute(final_term, (s0, s0b))
    r, _ = ctx._query(final_term != other)
    if r == "sat":
        return ctx.ok(label)
    if r == "unsat":
        return ctx.fail(label, f"stream after the operation is the constant {final_term}")
    return ctx.check(label, z3.BoolVal(False))  # unknown -> undecided


def blobs_data(seed=0, n=60, d=2):
    rng = np.random.RandomState(seed)
    a = rng.normal(0.3, 0.04, (n // 2, d))
    b = rng.normal(0.7, 0.05, (n - n // 2, d))
    return np.clip(np.vstack([a, b]), 0, 1), rng.dirichlet(np.ones(n))


def op_likelihood(op):
    """Gaussian bump; operations whose name contains 'zeroregion' get a likelihood that is zero on half of the prior volume"""
    base = lambda x: -0.5 * np.sum(((x - 0.5) / 0.1) ** 2, axis=1)
    if "zeroregion" not in op:
        return base
    return lambda x: np.where(np.atleast_2d(x)[:, 0] < 0.45, -np.inf, base(x))


def ckpt_kwargs(op, smp):
    """operations whose name contains 'ckpt' write a periodic checkpoint at every iteration (scratch directory, removed afterwards)."""
    if "ckpt" not in op:
        return {}
    if not getattr(smp, "_verif_tmp", None):
        import tempfile
        from pathlib import Path
        smp._verif_tmp = tempfile.mkdtemp(prefix="vf_c09_")
        object.__setattr__(smp._core.config, "output_dir", Path(smp._verif_tmp))
    return {"save_every": 1, "t0": 0}


def ckpt_cleanup(smp):
    import shutil
    if getattr(smp, "_verif_tmp", None):
        shutil.rmtree(smp._verif_tmp, ignore_errors=True)
        smp._verif_tmp = None


def make_noreset(op):
    def run_op(stub):
        X, w = blobs_data()
        with warnings.catch_warnings():
            warnings.simplefilter("ignore")
            if op == "gmm-fit-default":
                GaussianMixture(n_components=2).fit(X, w)
            elif op == "gmm-fit-random_state":
                GaussianMixture(n_components=2, random_state=42).fit(X, w)
            elif op == "hier-fit-predict":
                h = HierarchicalGaussianMixture(n_init=1, normalize=True)
                h.fit(X, w)
                h.predict(X)
            elif op == "systematic-resample":
                tools_mod.systematic_resample(8, np.full(8, 1 / 8))
            elif op == "systematic-resample-random_state":
                tools_mod.systematic_resample(8, np.full(8, 1 / 8), random_state=5)
            elif op == "hier-fit-twice":
                for _ in range(2):
                    stub.epoch += 1
                    h = HierarchicalGaussianMixture(n_init=1, normalize=True)
                    h.fit(X, w)
            elif op.startswith("sampler-save-load"):
                import tempfile, shutil
                from pathlib import Path
                tmp = tempfile.mkdtemp(prefix="vf_c09_")
                try:
                    mk = lambda: Sampler(lambda u: u, lambda x: -0.5 * np.sum(((x - 0.5) / 0.1) ** 2, axis=1), n_dim=2, n_particles=32, vectorize=True,
                                         clustering=False, n_steps=1, n_max_steps=2, random_state=11, output_dir=tmp)
                    smp = mk()
                    stub.term = stub.s_after_construction  # the stream in force while the run is under way: symbolic
                    smp._core._initialize_fresh()
                    for _ in range(2):
                        smp.sample()
                    smp.save_state(Path(tmp) / "ck.state")
                    smp2 = mk()  # a new sampler (its construction seeds the stream, as the property asks) ...
                    smp2.load_state(Path(tmp) / "ck.state")  # ... and loading must not rewind the run to that seed
                    smp2.sample(t0=2)
                finally:
                    shutil.rmtree(tmp, ignore_errors=True)
                return smp2
            elif op.startswith("sampler-posterior"):
                smp = Sampler(lambda u: u, lambda x: -0.5 * np.sum(((x - 0.5) / 0.1) ** 2, axis=1), n_dim=2, n_particles=32,
                              vectorize=True, clustering=False, n_steps=1, n_max_steps=2, random_state=(11 if "seeded" in op else None))
                smp._core._initialize_fresh()
                for _ in range(3):
                    smp.sample()
                stub.term = stub.s_after_construction  # accessors must leave the stream a function of the stream before them
                smp.posterior(resample=True)
                smp.posterior()
                smp.evidence()
                smp.results()
                return smp
            elif op.startswith("sampler-iterations"):
                clustering = "-clustering" in op
                smp = Sampler(lambda u: u, op_likelihood(op), n_dim=2, n_particles=32,
                              vectorize=True, clustering=clustering, sample="rwm" if "rwm" in op else "tpcn",
                              resample="syst" if "syst" in op else "mult", n_steps=1, n_max_steps=2,
                              random_state=(11 if "seeded" in op else None))
                # the stream in force once the sampler exists (seeded or not) is the symbolic state the iterations must depend on
                stub.term = stub.s_after_construction
                smp._core._initialize_fresh()
                for _ in range(6):
                    smp.sample(**ckpt_kwargs(op, smp))
                    if smp.state.get_current("beta") > 0.0 and _ >= 3:
                        break
                ckpt_cleanup(smp)
                return smp
        return None

    def harness(ctx: PathCtx):
        s0 = z3.Const("S0", State)
        stub = StreamStub(s0)
        stub.s_after_construction = s0
        with threaded(stub):
            run_op(stub)
        ctx.notes["draws"] = stub.n_draws
        depends_on_initial(ctx, "global-stream-after-the-operation-depends-on-the-stream-before-it", stub.term, s0)
        ctx.check("no-unseeded-entropy-source", z3.BoolVal(not stub.unseeded_entropy), detail=stub.unseeded_entropy)
        ctx.check("private-generators-do-not-carry-state-across-operations", z3.BoolVal(not stub.stale_private_generator),
                  detail=stub.stale_private_generator[:3])
        x = integer(ctx, "dummy", lo=0, hi=0)
        return stub.n_draws

    def replay(m, label, v):
        """real numpy: run the operation from two different global seeds; equal draws afterwards <=> the stream was reset."""
        if op.startswith("sampler-save-load"):
            import tempfile, shutil
            from pathlib import Path
            tmp = tempfile.mkdtemp(prefix="vf_c09_")
            saved0 = np.random.get_state()
            try:
                with warnings.catch_warnings():
                    warnings.simplefilter("ignore")
                    mk = lambda: Sampler(lambda u: u, lambda x: -0.5 * np.sum(((x - 0.5) / 0.1) ** 2, axis=1), n_dim=2, n_particles=32, vectorize=True,
                                         clustering=False, n_steps=1, n_max_steps=2, random_state=11, output_dir=tmp)
                    a = mk()
                    after_ctor = np.random.get_state()
                    np.random.set_state(after_ctor)
                    first_draws_of_the_run = np.random.rand(3).tolist()
                    np.random.set_state(after_ctor)
                    a._core._initialize_fresh()
                    for _ in range(2):
                        a.sample()
                    a.save_state(Path(tmp) / "ck.state")
                    b = mk()
                    b.load_state(Path(tmp) / "ck.state")
                    draws_after_load = np.random.rand(3).tolist()
            finally:
                np.random.set_state(saved0)
                shutil.rmtree(tmp, ignore_errors=True)
            rewound = draws_after_load == first_draws_of_the_run
            return {"reproduced": bool(rewound), "signature": "global-reseed:load-rewinds-the-run-to-its-seed", "payload": {"first_draws_of_the_run": first_draws_of_the_run, "draws_after_load": draws_after_load},
                    "what": f"after two iterations, save and load into a new sampler, the next global draws {draws_after_load[:2]} are "
                            f"{'exactly the first draws of the original run' if rewound else 'not the first draws of the original run'}: the resumed iterations replay the innovations of iterations 1, 2, ..."}
        if label == "no-unseeded-entropy-source" and "hash() of text" in str(v.get("detail")):
            # two fresh interpreters with different hash salts, same seeded computation
            import subprocess, sys as _sys
            from vf.engine.harness import REPO
            code = ("import sys, hashlib, warnings; sys.path.insert(0, %r); warnings.simplefilter('ignore'); import numpy as np\n"
                    "from tempest.cluster import HierarchicalGaussianMixture\n"
                    "rs = np.random.RandomState(0); X = np.vstack([rs.randn(40, 2) * 0.05 + c for c in ([0.2, 0.2], [0.8, 0.3], [0.5, 0.8])])\n"
                    "np.random.seed(3); h = HierarchicalGaussianMixture(); h.fit(X)\n"
                    "print(hashlib.sha256(np.asarray(h.predict(X)).tobytes()).hexdigest(), np.random.rand())\n" % REPO)
            outs = []
            for salt in ("1", "2", "3"):
                r = subprocess.run([_sys.executable, "-c", code], capture_output=True, text=True, env={**os.environ, "PYTHONHASHSEED": salt}, timeout=600)
                outs.append(r.stdout.strip().splitlines()[-1] if r.stdout.strip() else "failed: " + r.stderr[-200:])
            bad = len(set(outs)) > 1
            return {"reproduced": bad, "signature": f"unseeded-entropy:hash-salt:{op}", "payload": {"outputs": outs},
                    "what": f"the same seeded hierarchical fit in three fresh interpreters (PYTHONHASHSEED=1,2,3) gives {'different' if bad else 'identical'} labels: {outs}"}
        if label == "no-unseeded-entropy-source" and op.startswith("sampler-iterations"):
            # same seed, same inputs, twice: any entropy source outside the seeded stream shows up as different particles
            saved0 = np.random.get_state()
            runs = []
            try:
                for rep in range(2):
                    np.random.seed(123)
                    with warnings.catch_warnings():
                        warnings.simplefilter("ignore")
                        smp = Sampler(lambda u: u, op_likelihood(op), n_dim=2, n_particles=32, vectorize=True, clustering="-clustering" in op,
                                      sample="rwm" if "rwm" in op else "tpcn", resample="syst" if "syst" in op else "mult", n_steps=1, n_max_steps=2,
                                      random_state=(11 if "seeded" in op else None))
                        smp._core._initialize_fresh()
                        for _ in range(4):
                            smp.sample()
                    runs.append(np.asarray(smp.state.get_history("u", flat=True)).copy())
            finally:
                np.random.set_state(saved0)
            same = runs[0].shape == runs[1].shape and np.array_equal(runs[0], runs[1])
            return {"reproduced": not same, "signature": f"unseeded-entropy:{op}", "payload": {"first_rows_run1": runs[0][:2].tolist(), "first_rows_run2": runs[1][:2].tolist()},
                    "what": f"two runs of {op} with the same seed and inputs give {'identical' if same else 'different'} particle histories: a draw is taken from a generator "
                            "seeded from OS entropy"}
        outs = []
        saved = np.random.get_state()
        seeds_seen = []
        real_seed = np.random.seed

        def spy_seed(s_=None):
            seeds_seen.append(s_)
            return real_seed(s_)
        try:
            for sd in (1, 2):
                np.random.seed(sd)
                np.random.seed = spy_seed
                X, w = blobs_data()
                with warnings.catch_warnings():
                    warnings.simplefilter("ignore")
                    if op == "gmm-fit-default":
                        GaussianMixture(n_components=2).fit(X, w)
                    elif op == "gmm-fit-random_state":
                        GaussianMixture(n_components=2, random_state=42).fit(X, w)
                    elif op == "hier-fit-predict":
                        h = HierarchicalGaussianMixture(n_init=1, normalize=True)
                        h.fit(X, w)
                        h.predict(X)
                    elif op == "systematic-resample":
                        tools_mod.systematic_resample(8, np.full(8, 1 / 8))
                    elif op == "systematic-resample-random_state":
                        tools_mod.systematic_resample(8, np.full(8, 1 / 8), random_state=5)
                    elif op == "hier-fit-twice":
                        cents = []
                        for _ in range(2):
                            h = HierarchicalGaussianMixture(n_init=1, normalize=True)
                            h.fit(X, w)
                            cents.append(np.array(h.cluster_centers_))
                        if label.startswith("private-generators"):
                            # identical data, identical seeds: the two fits must coincide; spy on the private generators instead of the result
                            created = []
                            real_RS = np.random.RandomState

                            class SpyRS(real_RS):
                                def __init__(self, *a, **k):
                                    created.append(self)
                                    super().__init__(*a, **k)
                            np.random.RandomState = SpyRS
                            try:
                                for _ in range(2):
                                    HierarchicalGaussianMixture(n_init=1, normalize=True).fit(X, w)
                            finally:
                                np.random.RandomState = real_RS
                            fits = 2 * 3
                            np.random.seed = real_seed
                            return {"reproduced": len(created) < fits, "signature": "private-generator-shared-across-fits",
                                    "payload": {"private_generators_created": len(created), "inner_fits": fits},
                                    "what": f"two hierarchical fits ran {fits} seeded inner fits but created only {len(created)} private generators: a generator is cached and "
                                            "its position carries over from one fit (and one sampler run) to the next"}
                    elif op.startswith("sampler-posterior"):
                        np.random.seed = real_seed
                        smp = Sampler(lambda u: u, lambda x: -0.5 * np.sum(((x - 0.5) / 0.1) ** 2, axis=1), n_dim=2, n_particles=32,
                                      vectorize=True, clustering=False, n_steps=1, n_max_steps=2, random_state=(11 if "seeded" in op else None))
                        smp._core._initialize_fresh()
                        for _ in range(3):
                            smp.sample()
                        np.random.seed(sd)
                        np.random.seed = spy_seed
                        smp.posterior(resample=True)
                        smp.posterior()
                    else:
                        clustering = "-clustering" in op
                        np.random.seed = real_seed
                        smp = Sampler(lambda u: u, op_likelihood(op), n_dim=2, n_particles=32,
                                      vectorize=True, clustering=clustering, sample="rwm" if "rwm" in op else "tpcn",
                                      resample="syst" if "syst" in op else "mult", n_steps=1, n_max_steps=2,
                                      random_state=(11 if "seeded" in op else None))
                        np.random.seed = spy_seed  # only re-seeding *after* construction counts
                        smp._core._initialize_fresh()
                        for _ in range(6):
                            smp.sample(**ckpt_kwargs(op, smp))
                            if smp.state.get_current("beta") > 0.0 and _ >= 3:
                                break
                        ckpt_cleanup(smp)
                np.random.seed = real_seed
                outs.append(np.random.rand(4).tolist())
        finally:
            np.random.seed = real_seed
            np.random.set_state(saved)
        same = outs[0] == outs[1]
        if op.startswith("sampler-posterior") and seeds_seen:
            return {"reproduced": True, "signature": "global-reseed:posterior-accessor", "payload": {"np.random.seed_calls": [str(x) for x in seeds_seen[:4]]},
                    "what": f"Sampler.posterior(resample=True) called np.random.seed({seeds_seen[0]}): a read-only accessor resets the process-wide stream"}
        if op.startswith("sampler-iterations") and seeds_seen:
            return {"reproduced": True, "signature": f"global-reseed:sampler-iteration", "payload": {"np.random.seed_calls_during_iterations": [str(x) for x in seeds_seen[:6]]},
                    "what": f"during Sampler.sample() the library called np.random.seed with {sorted(set(map(str, seeds_seen)))} "
                            f"({len(seeds_seen)} times): every iteration after such a call replays the same global stream"}
        return {"reproduced": same, "signature": f"global-reseed:{op}", "payload": {"draws_after_seed_1": outs[0], "draws_after_seed_2": outs[1]},
                "what": f"after {op} started from np.random.seed(1) and from np.random.seed(2) the next global draws are "
                        f"{'identical' if same else 'different'}: {outs[0][:2]} vs {outs[1][:2]}"}

    return Obligation(f"noreset-{op}", harness, replay=replay,
                      encodes=[GaussianMixture.fit, GaussianMixture._initialize_parameters, HierarchicalGaussianMixture.fit, train_mod.Trainer.run,
                               core_mod.SamplerCore.execute_iteration, tools_mod.systematic_resample],
                      bounds="one concrete data set / configuration; all initial stream states (symbolic S0)", theory="QF_UF",
                      stubs=["np.random (global) -> threaded abstract stream state with concrete draw values"])


def make_seeding():
    def first_draw(ctx, k, s0):
        stub = StreamStub(s0)
        with threaded(stub), warnings.catch_warnings():
            warnings.simplefilter("ignore")
            smp = Sampler(lambda u: u, lambda x: -0.5 * np.sum(((x - 0.5) / 0.2) ** 2, axis=1), n_dim=1, n_particles=8, vectorize=True,
                          clustering=False, random_state=k)
            smp._core._initialize_fresh()
            smp.sample()
        return stub

    def harness(ctx: PathCtx):
        s0 = z3.Const("S0", State)
        k = integer(ctx, "random_state", lo=0, hi=2 ** 31)
        k2 = integer(ctx, "random_state_2", lo=0, hi=2 ** 31)
        ctx.assume(z3.Implies(SEED(k.z) == SEED(k2.z), k.z == k2.z))  # ground instance of the injectivity of seeding
        st1 = first_draw(ctx, k, s0)
        ctx.check("library-draws-happen", z3.BoolVal(st1.first_draw_term is not None))
        ctx.check("first-library-draw-uses-seed(random_state)-for-every-initial-stream", st1.first_draw_term == SEED(k.z),
                  detail=f"stream at the first draw: {st1.first_draw_term}")
        st2 = first_draw(ctx, k2, s0)
        ctx.check("different-seeds-give-different-streams", z3.Implies(k.z != k2.z, st1.first_draw_term != st2.first_draw_term))
        ctx.check("no-unseeded-entropy-source", z3.BoolVal(not st1.unseeded_entropy), detail=st1.unseeded_entropy)
        return None

    def replay(m, label, v):
        def run(seed_before, rs):
            np.random.seed(seed_before)
            smp = Sampler(lambda u: u, lambda x: -0.5 * np.sum(((x - 0.5) / 0.2) ** 2, axis=1), n_dim=1, n_particles=8, vectorize=True,
                          clustering=False, random_state=rs)
            smp._core._initialize_fresh()
            smp.sample()
            return smp.state.get_current("u").ravel().tolist()
        k1 = int(m.get("random_state", 5)) % (2 ** 32)
        k2 = int(m.get("random_state_2", 6)) % (2 ** 32)
        if k2 == k1:
            k2 = k1 + 1
        saved = np.random.get_state()
        # the symbolic seed stands for any integer value: replayed in every integer representation numpy users pass around
        reps = [("int", int), ("numpy.int64", np.int64)] + ([("numpy.int32", np.int32)] if max(k1, k2) < 2 ** 31 else [])
        out = None
        try:
            for rep_name, rep in reps:
                a = run(1, rep(k1))
                b = run(2, rep(k1))
                c = run(1, rep(k2))
                if label.startswith("different-seeds"):
                    bad = a == c
                    what = f"random_state={rep_name}({k1}) and {rep_name}({k2}) from the same global stream give {'identical' if bad else 'different'} particles"
                else:
                    bad = a != b
                    what = (f"two constructions with random_state={rep_name}({k1}) (global stream seeded 1 resp. 2 beforehand) give "
                            f"{'different' if bad else 'identical'} particles: {a[:2]} vs {b[:2]}")
                out = {"reproduced": bad, "signature": "random_state-not-applied-at-construction", "payload": {"run_a": a, "run_b": b, "run_c": c, "seed_type": rep_name}, "what": what}
                if bad:
                    break
        finally:
            np.random.set_state(saved)
        return out

    return Obligation("seeding-at-construction", harness, replay=replay, encodes=[Sampler.__init__, core_mod.SamplerCore.__init__, mutate_mod.Mutator.run],
                      bounds="symbolic random_state in [0, 2^31] (an integer of any representation: the replay passes int, numpy.int64, numpy.int32), symbolic initial stream state, one concrete target", theory="UF+LIA (quantified injectivity axiom)",
                      stubs=["np.random (global) -> threaded abstract stream state"])


def obligations(tier):
    ops = ["gmm-fit-default", "gmm-fit-random_state", "hier-fit-predict", "systematic-resample", "systematic-resample-random_state", "sampler-iterations-clustering-tpcn-mult",
           "sampler-iterations-seeded-clustering-rwm-syst", "sampler-iterations-seeded-noclustering-tpcn-mult",
           "hier-fit-twice", "sampler-posterior-seeded", "sampler-iterations-seeded-noclustering-rwm-mult-ckpt",
           "sampler-iterations-seeded-noclustering-tpcn-mult-zeroregion", "sampler-save-load-resume-seeded"]
    if tier == "thorough":
        ops += ["sampler-iterations-clustering-rwm-syst", "sampler-iterations-noclustering-tpcn-syst", "sampler-iterations-noclustering-rwm-mult",
                "sampler-iterations-seeded-noclustering-tpcn-syst", "sampler-iterations-seeded-clustering-tpcn-mult",
                "sampler-iterations-clustering-tpcn-mult-ckpt", "sampler-iterations-seeded-clustering-tpcn-syst-ckpt"]
    return [make_noreset(o) for o in ops] + [make_seeding()]
