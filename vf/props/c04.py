"""C04 - importance weights follow the balance-heuristic mixture formula."""
from __future__ import annotations

import itertools
from fractions import Fraction

import numpy as np
import z3

import tempest.state_manager as sm_mod
from tempest.state_manager import StateManager

import math

from vf.engine.core import PathCtx, SymBool
from vf.engine.harness import Obligation
from vf.engine.real import LogVal, SymReal
from vf.engine.arr import NpProxy, patched, sarr
from vf.engine.util import real, eq

PROPERTY_ID = "C04"
ASSUMPTIONS = [
    "exact-real arithmetic: log-likelihoods are ell = D*log(a), a>0 symbolic; exp/log are handled by the "
    "exponential homomorphism (no transcendental evaluation), so rounding/overflow (finiteness for |logL| up to 1e6) "
    "is outside the claim",
    "beta values range over the stated rational grid",
]


def build_state(ctx, batches, betas, D, tag="", shift=None, order=None):
    """history with len(batches) iterations; returns (state, atoms a_s (SymReal), Z_t (SymReal))."""
    st = StateManager(n_dim=1)
    L, Z = [], []
    k = 0
    idx = list(range(len(batches))) if order is None else list(order)
    per_batch = []
    for t, nt in enumerate(batches):
        ls = [LogVal.atom(f"l{k + j}", D) for j in range(nt)]
        zt = real(ctx, f"Z{t}", lo=0, lo_strict=True)
        per_batch.append((ls, zt, betas[t]))
        k += nt
    for t in idx:
        ls, zt, b = per_batch[t]
        logz = LogVal.of_positive(zt)
        ll = list(ls)
        if shift is not None:
            ll = [l + shift for l in ll]
            logz = logz + shift * Fraction(b)
        st.update_current({"logl": sarr(ll), "beta": float(b), "logz": logz})
        st.commit_current_to_history()
    return st, per_batch, idx


def spec_weights(per_batch, beta_final, D, shift_a=None):
    """independent specification in the exp domain: w_s = L_s^beta / sum_t (n_t/N) L_s^beta_t / Z_t."""
    N = sum(len(ls) for ls, _, _ in per_batch)
    ws = []
    for ls, _, _ in per_batch:
        for l in ls:
            (at, c), = l.coef.items()
            a = SymReal(at.a, sign="+")
            num = a ** int(Fraction(beta_final) * D)
            den = None
            for ls2, zt, bt in per_batch:
                term = (a ** int(Fraction(bt) * D)) * Fraction(len(ls2), N) / zt
                den = term if den is None else den + term
            ws.append(num / den)
    return ws


def run_real(st, beta_final, normalize=True):
    with patched(sm_mod, np=NpProxy(exact_log=True), float=lambda v: v):
        return st.compute_logw_and_logz(beta_final, normalize=normalize)


def _concrete_formula(logl_batches, betas, logzs, beta_final):
    import math
    N = sum(len(b) for b in logl_batches)
    ws = []
    for b in logl_batches:
        for l in b:
            den = sum(len(b2) / N * math.exp(bt * l - lz) for b2, bt, lz in zip(logl_batches, betas, logzs))
            ws.append(math.exp(beta_final * l) / den)
    return ws


def mis_reference(st, beta_final=1.0):
    """independent float evaluation of the balance-heuristic weights and evidence from a state's stored history
    (log-domain, stable); used by replays instead of calling the function under test again."""
    import math
    logl_b = [np.asarray(b, dtype=float) for b in st._history["logl"]]
    betas = [float(b) for b in st._history["beta"]]
    logzs = [float(z) for z in st._history["logz"]]
    N = sum(len(b) for b in logl_b)
    logw = []
    for b in logl_b:
        for l in b:
            terms = [math.log(len(b2) / N) + bt * l - lz for b2, bt, lz in zip(logl_b, betas, logzs)]
            mx = max(terms)
            logw.append(beta_final * l - (mx + math.log(sum(math.exp(t - mx) for t in terms))))
    logw = np.array(logw)
    mx = logw.max()
    logz = mx + math.log(np.exp(logw - mx).sum()) - math.log(N)
    return logw, float(logz)


def make_formula(batches, betas, beta_final, D):
    def harness(ctx: PathCtx):
        st, pb, _ = build_state(ctx, batches, betas, D)
        logw_raw, logz = run_real(st, float(beta_final), normalize=False)
        logw_n, logz2 = run_real(st, float(beta_final), normalize=True)
        spec = spec_weights(pb, beta_final, D)
        N = len(spec)
        ctx.check("length", z3.BoolVal(len(logw_raw) == N and len(logw_n) == N))
        tot = spec[0]
        for s in spec[1:]:
            tot = tot + s
        for s in range(N):
            ctx.check(f"logw[{s}]==formula", eq(logw_raw[s].exp(), spec[s]))
            ctx.check(f"normalised[{s}]==spec/sum", eq(logw_n[s].exp(), spec[s] / tot))
        ctx.check("logz==log-mean-weight", eq(logz.exp(), tot / N))
        ctx.check("logz-same-for-normalize-flag", eq(logz.exp(), logz2.exp()))
        if N <= 4:
            sw = logw_n[0].exp()
            for s in range(1, N):
                sw = sw + logw_n[s].exp()
            ctx.check("normalised-sum==1", eq(sw, 1))
        ctx.observe("w0", logw_raw[0].exp().term())
        ctx.observe("z", logz.exp().term())
        return None

    def concrete(model):
        import math
        st = StateManager(n_dim=1)
        k = 0
        lb, lz = [], []
        for t, nt in enumerate(batches):
            ll = np.array([D * math.log(float(model[f"expatom_l{k + j}"])) for j in range(nt)])
            z = math.log(float(model[f"Z{t}"]))
            st.update_current({"logl": ll, "beta": float(betas[t]), "logz": z})
            st.commit_current_to_history()
            lb.append(ll)
            lz.append(z)
            k += nt
        return st, lb, lz

    def validate(w, ret):
        import math
        for k_, v in w.items():
            if (k_.startswith("expatom") or k_.startswith("Z")) and not (1e-30 < float(v) < 1e30):
                return None, "model outside float range"
        st, lb, lz = concrete(w)
        logw, logz = st.compute_logw_and_logz(float(beta_final), normalize=False)
        w0 = float(w["obs:w0"])
        zz = float(w["obs:z"])
        ok = math.isclose(math.exp(logw[0]), w0, rel_tol=1e-7) and math.isclose(math.exp(logz), zz, rel_tol=1e-7)
        return ok, f"float run exp(logw0)={math.exp(logw[0])!r} exp(logz)={math.exp(logz)!r} vs symbolic {w0!r},{zz!r}"

    def replay(model, label, v):
        import math
        st, lb, lz = concrete(model)
        logw, logz = st.compute_logw_and_logz(float(beta_final), normalize=False)
        logwn, _ = st.compute_logw_and_logz(float(beta_final), normalize=True)
        spec = _concrete_formula(lb, [float(b) for b in betas], lz, float(beta_final))
        N = len(spec)
        got = np.exp(logw)
        gotn = np.exp(logwn)
        bad = False
        if label.startswith("logw["):
            bad = not np.allclose(got, spec, rtol=1e-6)
        elif label.startswith("normalised["):
            bad = not np.allclose(gotn, np.array(spec) / sum(spec), rtol=1e-6)
        elif label == "logz==log-mean-weight":
            bad = not math.isclose(math.exp(logz), sum(spec) / N, rel_tol=1e-6)
        elif label == "normalised-sum==1":
            bad = not math.isclose(gotn.sum(), 1.0, rel_tol=1e-6)
        elif label == "length":
            bad = len(logw) != N
        return {"reproduced": bool(bad), "signature": f"compute_logw_and_logz:{label.split('[')[0]}",
                "payload": {"logl": [b.tolist() for b in lb], "beta": [float(b) for b in betas], "logz": lz,
                            "beta_final": float(beta_final), "got": got.tolist(), "formula": spec},
                "what": f"compute_logw_and_logz({float(beta_final)}) on batches {[b.tolist() for b in lb]} betas "
                        f"{[float(b) for b in betas]} logz {lz}: weights {got.tolist()} vs formula {spec} ({label})"}

    return Obligation(f"formula-n{'x'.join(map(str, batches))}-b{'_'.join(str(b) for b in betas)}-bf{beta_final}",
                      harness, replay=replay, validate=validate, encodes=[StateManager.compute_logw_and_logz, StateManager.get_history],
                      bounds=f"T={len(batches)} batches of sizes {batches}, beta_t={list(map(str, betas))}, beta_final={beta_final}, grid 1/{D}",
                      stubs=["np.log/np.logaddexp/np.exp -> exact log-domain algebra (LogVal)"], theory="QF_NRA")


def make_relational(batches, betas, beta_final, D, kind):
    def harness(ctx: PathCtx):
        st, pb, _ = build_state(ctx, batches, betas, D)
        lw, lz = run_real(st, float(beta_final), True)
        if kind == "permute":
            for order in itertools.permutations(range(len(batches))):
                if list(order) == list(range(len(batches))):
                    continue
                st2, _, idx = build_state(ctx, batches, betas, D, order=order)
                lw2, lz2 = run_real(st2, float(beta_final), True)
                # map flat positions: state 2 holds batches in `order`
                offs = np.cumsum([0] + list(batches))
                pos2 = []
                for t in order:
                    pos2 += list(range(offs[t], offs[t + 1]))
                conds = [eq(lw2[j].exp(), lw[s].exp()) for j, s in enumerate(pos2)]
                ctx.check(f"order-independent{order}", z3.And(*conds))
                ctx.check(f"evidence-order-independent{order}", eq(lz.exp(), lz2.exp()))
        else:
            c = LogVal.atom("cshift", D)
            st2, _, _ = build_state(ctx, batches, betas, D, shift=c)
            lw2, lz2 = run_real(st2, float(beta_final), True)
            ctx.check("normalised-weights-shift-invariant", z3.And(*[eq(lw2[s].exp(), lw[s].exp()) for s in range(len(lw))]))
            ctx.check("evidence-shifts-by-beta*c", eq(lz2.exp(), (lz + c * Fraction(beta_final)).exp()))
        return None

    def replay(model, label, v):
        return {"reproduced": False, "what": "relational obligation: replay by the formula obligations"}

    return Obligation(f"{kind}-n{'x'.join(map(str, batches))}-b{'_'.join(str(b) for b in betas)}-bf{beta_final}", harness,
                      replay=replay, encodes=[StateManager.compute_logw_and_logz],
                      bounds=f"batches {batches}, betas {list(map(str, betas))}, beta_final {beta_final}, grid 1/{D}",
                      stubs=["np.log/np.logaddexp -> exact log-domain algebra (LogVal)"], theory="QF_NRA")


# ------------------------------------------------------------------ finiteness for log-likelihoods of any magnitude


class RangeFloatOps:
    """Range abstraction of double-precision exp/log (the only way magnitudes can hurt): exp(x) is an arbitrary
    non-negative value that is exactly 0 below the underflow threshold and +inf above the overflow threshold; log(0) = -inf;
    np.logaddexp (numpy's stable primitive) maps finite inputs to a finite value >= its inputs."""

    UNDER, OVER = Fraction(-7451, 10), Fraction(7097, 10)

    def __init__(self, ctx):
        self.ctx = ctx
        self.k = 0

    def fresh(self, base, **kw):
        self.k += 1
        return real(self.ctx, f"{base}!{self.k}", **kw)

    def exp1(self, x):
        if isinstance(x, float):
            return math.exp(x) if x < 700 else float("inf")
        x = SymReal.lift(x)
        c = x.concrete()
        if c is not None:
            return SymReal.const(Fraction(math.exp(float(c)))) if -700 < float(c) < 700 else (0.0 if c < 0 else float("inf"))
        if bool(x > self.OVER):
            return float("inf")
        e = self.fresh("exp", lo=0)
        self.ctx.assume(z3.Implies((x < self.UNDER).z, e.n == 0))
        self.ctx.assume(z3.Implies((x >= self.UNDER).z, e.n > 0))
        return e

    def log1(self, x):
        if isinstance(x, (int, np.integer, float, np.floating)) and not isinstance(x, bool):
            return float(np.log(x)) if x > 0 else (float("-inf") if x == 0 else float("nan"))
        x = SymReal.lift(x)
        if bool(x == 0):
            return float("-inf")
        if bool(x < 0):
            return float("nan")
        return self.fresh("log")

    def _map(self, f, a):
        if isinstance(a, np.ndarray):
            out = np.empty(a.shape, dtype=object)
            for idx in np.ndindex(a.shape):
                out[idx] = f(a[idx])
            if a.ndim == 0:
                return out.item()
            try:
                return out.astype(float) if all(isinstance(v, float) for v in out.reshape(-1)) else out.view(type(sarr([0])))
            except Exception:
                return out
        return f(a)

    def exp(self, a):
        return self._map(self.exp1, a)

    def log(self, a):
        return self._map(self.log1, a)

    def lae_pair(self, a, b):
        for v in (a, b):
            if isinstance(v, float) and (math.isnan(v) or v == float("inf")):
                return v
        if isinstance(a, float) and a == float("-inf"):
            return b
        if isinstance(b, float) and b == float("-inf"):
            return a
        r = self.fresh("lae")
        self.ctx.assume(z3.And((r >= a).z if isinstance(r >= a, SymBool) else z3.BoolVal(True),
                               (r >= b).z if isinstance(r >= b, SymBool) else z3.BoolVal(True)))
        return r

    def lae_reduce(self, arr, axis=0):
        arr = np.asarray(arr, dtype=object)
        if arr.ndim == 1:
            if arr.size == 0:
                return float("-inf")
            acc = arr[0]
            for v in arr[1:]:
                acc = self.lae_pair(acc, v)
            return acc
        moved = np.moveaxis(arr, axis, -1)
        out = np.empty(moved.shape[:-1], dtype=object)
        for idx in np.ndindex(moved.shape[:-1]):
            out[idx] = self.lae_reduce(moved[idx])
        return out.view(type(sarr([0])))


def make_finite(batches, betas, beta_final, shifted=False):
    from vf.engine.core import HarnessError

    def harness(ctx: PathCtx):
        ops = RangeFloatOps(ctx)
        st = StateManager(n_dim=1)
        c = real(ctx, "cshift", lo=-1000, hi=1000) if shifted else None
        k = 0
        for t, nt in enumerate(batches):
            ls = [real(ctx, f"logl{k + j}", lo=-10 ** 6, hi=10 ** 6) for j in range(nt)]
            lz = real(ctx, f"logz{t}", lo=-10 ** 6, hi=10 ** 6)
            if shifted:
                ls = [l + c for l in ls]
                lz = lz + c * Fraction(betas[t])
            st.update_current({"logl": sarr(ls), "beta": float(betas[t]), "logz": lz})
            st.commit_current_to_history()
            k += nt
        lae = type("LAE", (), {"reduce": staticmethod(ops.lae_reduce), "__call__": staticmethod(ops.lae_pair)})()
        proxy = NpProxy(overrides={"exp": ops.exp, "log": ops.log, "logaddexp": lae, "isfinite": lambda a: True})
        try:
            with patched(sm_mod, np=proxy, float=lambda v: v):  # float() of a double is the identity
                logw, logz = st.compute_logw_and_logz(float(beta_final), normalize=True)
        except HarnessError as e:
            if "non-finite" in str(e):
                ctx.fail("weights-and-evidence-stay-finite", str(e))
                return None
            raise
        except (TypeError, ZeroDivisionError) as e:
            ctx.fail("weights-and-evidence-stay-finite", f"{type(e).__name__}: {e}")
            return None
        vals = [v for v in np.asarray(logw, dtype=object).reshape(-1)] + [logz]
        bad = [v for v in vals if isinstance(v, (float, np.floating)) and not math.isfinite(v)]
        ctx.check("weights-and-evidence-stay-finite", z3.BoolVal(not bad), detail=[str(v) for v in bad][:3])
        return None

    def replay(m, label, v):
        st = StateManager(n_dim=1)
        c = float(m.get("cshift", 0.0)) if shifted else 0.0
        k = 0
        for t, nt in enumerate(batches):
            ll = np.array([float(m[f"logl{k + j}"]) for j in range(nt)]) + c
            st.update_current({"logl": ll, "beta": float(betas[t]), "logz": float(m[f"logz{t}"]) + float(betas[t]) * c})
            st.commit_current_to_history()
            k += nt
        with np.errstate(all="ignore"):
            logw, logz = st.compute_logw_and_logz(float(beta_final))
        bad = not (np.all(np.isfinite(logw)) and np.isfinite(logz))
        return {"reproduced": bool(bad), "signature": "compute_logw_and_logz:non-finite",
                "payload": {"logl": [b.tolist() for b in st._history["logl"]], "logz_t": [float(z) for z in st._history["logz"]],
                            "logw": np.asarray(logw).tolist(), "logz": float(logz)},
                "what": f"compute_logw_and_logz({float(beta_final)}) on logl {[b.tolist() for b in st._history['logl']]}, betas {[float(b) for b in betas]}: "
                        f"logw={np.asarray(logw).tolist()}, logz={float(logz)} (non-finite)"}

    return Obligation(f"finite{'-shifted' if shifted else ''}-n{'x'.join(map(str, batches))}-b{'_'.join(str(b) for b in betas)}-bf{beta_final}", harness,
                      replay=replay, encodes=[StateManager.compute_logw_and_logz],
                      bounds=f"batches {batches}, betas {list(map(str, betas))}, log-likelihoods and log-evidences arbitrary reals in [-1e6, 1e6]"
                             + (", shift c in [-1e3,1e3]" if shifted else ""),
                      stubs=["np.exp/np.log -> range abstraction of double precision (underflow to 0 below -745.1, overflow above 709.7, log(0) = -inf)",
                             "np.logaddexp -> finite inputs give a finite value >= inputs (numpy's stable primitive is trusted)"],
                      theory="QF_LRA", max_paths=5000)


def make_replaced_history(batches, betas, beta_final, D, batches2=None):
    """sequence on ONE object: compute, replace the history by a different one of the same shape (update_from_dict, the
    load/resume path), compute again - the second result must follow the formula for the NEW history (no stale caches).
    batches2: batch sizes of the replacing history (same number of iterations, possibly different sizes per iteration:
    anything remembered per iteration - the mixture offsets log(n_t/N) - must be rebuilt)."""
    batches2 = tuple(batches2) if batches2 is not None else tuple(batches)

    def harness(ctx: PathCtx):
        st, pb1, _ = build_state(ctx, batches, betas, D)
        run_real(st, float(beta_final), True)
        run_real(st, float(beta_final), False)
        other = StateManager(n_dim=1)
        pb2 = []
        k = 0
        for t, nt in enumerate(batches2):
            ls = [LogVal.atom(f"m{k + j}", D) for j in range(nt)]
            zt = real(ctx, f"Y{t}", lo=0, lo_strict=True)
            other.update_current({"logl": sarr(ls), "beta": float(betas[t]), "logz": LogVal.of_positive(zt)})
            other.commit_current_to_history()
            pb2.append((ls, zt, betas[t]))
            k += nt
        st.update_from_dict(other.to_dict())
        logw, logz = run_real(st, float(beta_final), normalize=False)
        spec = spec_weights(pb2, beta_final, D)
        tot = spec[0]
        for s_ in spec[1:]:
            tot = tot + s_
        ctx.check("weights-follow-the-formula-for-the-replaced-history", z3.And(*[eq(logw[i].exp(), spec[i]) for i in range(len(spec))]))
        ctx.check("evidence-follows-the-replaced-history", eq(logz.exp(), tot / len(spec)))
        return None

    def replay(m, label, v):
        rng = np.random.RandomState(0)
        st = StateManager(n_dim=1)
        other = StateManager(n_dim=1)
        for s_, off, bs in ((st, 0.0, batches), (other, 5.0, batches2)):
            for t, nt in enumerate(bs):
                s_.update_current({"logl": rng.randn(nt) - off, "beta": float(betas[t]), "logz": float(rng.randn())})
                s_.commit_current_to_history()
        st.compute_logw_and_logz(float(beta_final))
        st.update_from_dict(other.to_dict())
        a = st.compute_logw_and_logz(float(beta_final))
        b = other.compute_logw_and_logz(float(beta_final))
        bad = not (np.allclose(a[0], b[0]) and math.isclose(a[1], b[1]))
        return {"reproduced": bool(bad), "signature": "compute_logw_and_logz:stale-after-history-replacement", "payload": {"got": np.asarray(a[0]).tolist(), "expected": np.asarray(b[0]).tolist()},
                "what": "compute_logw_and_logz after update_from_dict(<a different history of the same shape>) returns weights that do not belong to the new history"}

    suffix = "" if batches2 == tuple(batches) else "-by-n" + "x".join(map(str, batches2))
    return Obligation(f"replaced-history-n{'x'.join(map(str, batches))}{suffix}-bf{beta_final}", harness, replay=replay,
                      encodes=[StateManager.compute_logw_and_logz, StateManager.update_from_dict, StateManager.to_dict],
                      bounds=f"two symbolic histories with batches {batches} and {batches2}, betas {list(map(str, betas))}; compute / replace / compute on one object",
                      stubs=["np.log/np.logaddexp -> exact log-domain algebra"], theory="QF_NRA")


# ------------------------------------------------------------------ arbitrary real temperatures (no beta grid)


class BetaProducts:
    """exp(beta * ell_s) as an *uninterpreted* positive function of (sample s, beta), Ackermannised: one positive real
    E[s, beta-term] per syntactically distinct pair, with the congruence instances  beta == beta' -> E[s,beta] == E[s,beta']
    and  beta == 0 -> E == 1  added as the pairs appear. On top of these atoms the log-domain algebra stays exact."""

    def __init__(self, ctx):
        self.ctx = ctx
        self.atoms = {}  # name -> list of (beta z3 term, LogVal atom, z3 var)
        self.n_axioms = 0

    def product(self, name, beta):
        if isinstance(beta, np.ndarray) and beta.ndim == 0:
            beta = beta.item()
        b = SymReal.lift(beta)
        bc = b.concrete()
        if bc is not None and bc == 0:
            return LogVal({})
        bt = b.term()
        lst = self.atoms.setdefault(name, [])
        for t0, lv, _ in lst:
            if t0.eq(bt):
                return lv
        lv = LogVal.atom(f"E_{name}_{len(lst)}", 1)
        (at, _), = lv.coef.items()
        self.ctx.register(f"betaof_E_{name}_{len(lst)}", bt) if not z3.is_rational_value(bt) else None
        if bc is None:
            self.ctx.assume(z3.Implies(bt == 0, at.a == 1))
            self.n_axioms += 1
        for t0, _, a0 in lst:
            self.ctx.assume(z3.Implies(bt == t0, at.a == a0))
            self.n_axioms += 1
        lst.append((bt, lv, at.a))
        return lv


class LoglLin:
    """sum_i k_i * ell_i of named log-likelihood unknowns; multiplying by a temperature gives the log-domain value
    sum_i k_i * (beta * ell_i), each beta*ell_i an Ackermannised atom of `BetaProducts`."""

    # immutable value object (the repaired StateManager deep-copies object arrays; a copy must not duplicate the products table)
    def __copy__(self):
        return self

    def __deepcopy__(self, memo):
        return self

    __slots__ = ("bp", "terms")

    def __init__(self, bp, terms):
        self.bp = bp
        self.terms = {k: v for k, v in terms.items() if v != 0}

    def __add__(self, o):
        if isinstance(o, LoglLin):
            t = dict(self.terms)
            for k, v in o.terms.items():
                t[k] = t.get(k, Fraction(0)) + v
            return LoglLin(self.bp, t)
        if isinstance(o, np.ndarray) and o.ndim > 0:
            return NotImplemented
        if isinstance(o, (int, float)) and o == 0:
            return self
        return NotImplemented

    __radd__ = __add__

    def __neg__(self):
        return LoglLin(self.bp, {k: -v for k, v in self.terms.items()})

    def __sub__(self, o):
        if isinstance(o, LoglLin):
            return self + (-o)
        return NotImplemented

    def __mul__(self, beta):
        if isinstance(beta, np.ndarray) and beta.ndim > 0:
            return NotImplemented
        if isinstance(beta, (LoglLin, LogVal)):
            return NotImplemented
        out = LogVal({})
        for name, k in self.terms.items():
            out = out + self.bp.product(name, beta) * k
        return out

    __rmul__ = __mul__


def make_symbolic_beta(batches, shift=False, free_final=False):
    """temperatures are arbitrary reals 0 <= beta_1 <= ... <= beta_T <= 1 (first one 0 when T > 1 as in every run),
    beta_final either 1 or an arbitrary real in [0, 1]; log-likelihoods arbitrary; exp(beta*ell) uninterpreted."""
    T = len(batches)
    N = sum(batches)

    def build(ctx, bp, betas, Zs, c=None):
        st = StateManager(n_dim=1)
        k = 0
        for t, nt in enumerate(batches):
            ls = [LoglLin(bp, {f"l{k + j}": Fraction(1)}) for j in range(nt)]
            logz = LogVal.of_positive(Zs[t])
            if c is not None:
                ls = [l + c for l in ls]
                logz = logz + c * betas[t]
            st.update_current({"logl": sarr(ls), "beta": betas[t], "logz": logz})
            st.commit_current_to_history()
            k += nt
        return st

    def run(st, bf):
        over = {"asarray": lambda a, *aa, **kw: sarr(list(a)) if isinstance(a, list) and a and not isinstance(a[0], (int, float)) else np.asarray(a, *aa, **kw)}
        with patched(sm_mod, np=NpProxy(exact_log=True, overrides=over), float=lambda v: v):
            return st.compute_logw_and_logz(bf, normalize=False)

    def harness(ctx: PathCtx):
        bp = BetaProducts(ctx)
        betas = []
        for t in range(T):
            if t == 0 and T > 1:
                betas.append(SymReal.const(0))
                continue
            b = real(ctx, f"beta{t}", lo=0, hi=1)
            if betas and betas[-1].concrete() is None:
                ctx.assume(betas[-1].term() <= b.term())
            betas.append(b)
        bf = real(ctx, "beta_final", lo=0, hi=1) if free_final else 1.0
        Zs = [real(ctx, f"Z{t}", lo=0, lo_strict=True) for t in range(T)]
        st = build(ctx, bp, betas, Zs)
        logw, logz = run(st, bf)
        ctx.check("length", z3.BoolVal(len(logw) == N))
        # specification in the exp domain, from the same uninterpreted exp(beta*ell)
        spec = []
        for s in range(N):
            num = bp.product(f"l{s}", bf).exp()
            den = None
            for t in range(T):
                term = bp.product(f"l{s}", betas[t]).exp() * Fraction(batches[t], N) / Zs[t]
                den = term if den is None else den + term
            spec.append(num / den)
        tot = spec[0]
        for w in spec[1:]:
            tot = tot + w
        for s in range(N):
            ctx.check(f"logw[{s}]==formula", eq(logw[s].exp(), spec[s]))
        ctx.check("logz==log-mean-weight", eq(logz.exp(), tot / N))
        if shift:
            c = LoglLin(bp, {"cshift": Fraction(1)})
            st2 = build(ctx, bp, betas, Zs, c=c)
            logw2, logz2 = run(st2, bf)
            ebc = bp.product("cshift", bf).exp()
            for s in range(N):
                ctx.check(f"shift:logw[{s}]-moves-by-beta_final*c", eq(logw2[s].exp(), logw[s].exp() * ebc))
            ctx.check("shift:evidence-moves-by-beta_final*c", eq(logz2.exp(), logz.exp() * ebc))
        ctx.observe("n_congruence_axioms", z3.IntVal(bp.n_axioms))
        return None

    LADDERS = [None, 5e-5, 1e-6, 1e-3, 0.2, 0.0]

    def replay(m, label, v):
        # exp(beta*ell) was uninterpreted, so the model fixes temperatures and evidences but not log-likelihoods:
        # replay with the model's temperatures and with ladders of equally spaced ones, on log-likelihoods of several magnitudes
        import math
        mb = [0.0 if (t == 0 and T > 1) else float(m.get(f"beta{t}", 0.0)) for t in range(T)]
        bfv = float(m.get("beta_final", 1.0)) if free_final else 1.0
        lzs = [math.log(max(float(m.get(f"Z{t}", 1.0)), 1e-300)) for t in range(T)]
        worst = None
        for lad in LADDERS:
            bs = mb if lad is None else [min(1.0, t * lad) for t in range(T)]
            for scale in (1.0, 40.0, 3000.0):
                rng = np.random.RandomState(5)
                lb = [(-scale * rng.rand(nt)) for nt in batches]
                for cc in ((0.0, 250.0) if label.startswith("shift") else (0.0,)):
                    st = StateManager(n_dim=1)
                    for t in range(T):
                        st.update_current({"logl": lb[t] + cc, "beta": bs[t], "logz": lzs[t] + bs[t] * cc})
                        st.commit_current_to_history()
                    logw, logz = st.compute_logw_and_logz(bfv, normalize=False)
                    ref = []
                    for b in lb:
                        for l in b:
                            # log-domain reference (no overflow): log sum_t n_t/N exp(beta_t l - logz_t)
                            terms = [math.log(nt / N) + bt * (l + cc) - (lz + bt * cc) for nt, bt, lz in zip(batches, bs, lzs)]
                            mx = max(terms)
                            ref.append(bfv * (l + cc) - (mx + math.log(sum(math.exp(x - mx) for x in terms))))
                    ref = np.array(ref)
                    mxw = ref.max()
                    refz = mxw + math.log(np.exp(ref - mxw).sum()) - math.log(N)
                    err = max(float(np.max(np.abs(np.asarray(logw, dtype=float) - ref))), abs(float(logz) - refz))
                    if len(logw) != N:
                        err = float("inf")
                    if worst is None or err > worst[0]:
                        worst = (err, bs, scale, cc, np.asarray(logw, dtype=float).tolist(), ref.tolist())
        err, bs, scale, cc, got, ref = worst
        bad = err > 1e-7 * max(1.0, scale)
        return {"reproduced": bool(bad), "signature": f"compute_logw_and_logz:real-temperatures:{label.split('[')[0]}",
                "payload": {"betas": bs, "logl_scale": scale, "shift": cc, "got": got, "formula": ref, "abs_err": err},
                "what": f"compute_logw_and_logz(beta_final={bfv}) with temperatures {bs}, log-likelihoods of size ~{scale} "
                        f"(shift {cc}): log-weights differ from the mixture formula by {err:.3g} ({label})"}

    return Obligation(f"realbeta-n{'x'.join(map(str, batches))}{'-shift' if shift else ''}{'-bf' if free_final else ''}", harness, replay=replay,
                      encodes=[StateManager.compute_logw_and_logz, StateManager.get_history],
                      bounds=f"T={T} batches of sizes {batches}; temperatures arbitrary reals, nondecreasing in [0,1]"
                             f"{' (first 0)' if T > 1 else ''}; beta_final {'arbitrary in [0,1]' if free_final else '1'}; "
                             "arbitrary log-likelihoods and positive evidences",
                      stubs=["exp(beta*ell) -> uninterpreted positive function of (sample, beta), Ackermann congruence instances; "
                             "np.log/np.logaddexp -> exact log-domain algebra on top of these atoms"], theory="QF_NRA")


H = Fraction(1, 2)
Q = Fraction(1, 4)


def obligations(tier):
    obs = []
    if tier == "quick":
        cfgs = [((2,), (0,), 1, 2), ((1, 2), (0, H), 1, 2), ((2, 1), (0, 1), H, 2), ((1, 2), (H, 0), 0, 2),
                ((2, 2), (0, H), H, 2), ((1, 1, 2), (0, H, 1), 1, 2), ((2, 1, 1), (0, 0, H), 1, 2),
                # unequal batches whose mean size equals the first batch size; two components with identical (beta, logZ) need Z0 == Z1: symbolic Z covers it
                ((2, 1, 3), (0, H, 1), 1, 2)]
    else:
        cfgs = []
        for batches in [(2,), (1, 2), (2, 1), (3, 1), (2, 2), (1, 1, 2), (2, 1, 1), (1, 2, 3), (3, 2, 1), (2, 3, 3)]:
            T = len(batches)
            for betas in itertools.product((0, Q, H, 1), repeat=T):
                if T == 3 and len(set(betas)) < 2:
                    continue
                for bf in (0, Q, H, 3 * Q, 1):
                    cfgs.append((batches, betas, bf, 4))
        cfgs = cfgs[::7] if len(cfgs) > 400 else cfgs
    for batches, betas, bf, D in cfgs:
        obs.append(make_formula(batches, tuple(Fraction(b) for b in betas), Fraction(bf), D))
    rel = [((1, 2), (0, H), 1, 2), ((1, 1, 2), (0, H, 1), 1, 2)] if tier == "quick" else \
        [((1, 2), (0, H), 1, 2), ((1, 1, 2), (0, H, 1), 1, 2), ((2, 1, 1), (0, Q, 1), H, 4), ((1, 2, 3), (H, 0, 1), 1, 2)]
    for batches, betas, bf, D in rel:
        obs.append(make_relational(batches, tuple(Fraction(b) for b in betas), Fraction(bf), D, "permute"))
        obs.append(make_relational(batches, tuple(Fraction(b) for b in betas), Fraction(bf), D, "shift"))
    obs.append(make_replaced_history((2, 1), (Fraction(0), H), Fraction(1), 2))
    # same number of iterations, other batch sizes per iteration (seeded C04-6A: mixture offsets cached by iteration count)
    obs.append(make_replaced_history((2, 1), (Fraction(0), H), Fraction(1), 2, batches2=(1, 2)))
    if tier == "thorough":
        obs.append(make_replaced_history((1, 2, 1), (Fraction(0), H, Fraction(1)), Fraction(1), 2, batches2=(2, 1, 1)))
        obs.append(make_replaced_history((3, 1), (Fraction(0), H), H, 2, batches2=(1, 3)))
    obs.append(make_symbolic_beta((2, 1, 1)))
    obs.append(make_symbolic_beta((1, 1), free_final=True))
    obs.append(make_finite((2, 1), (Fraction(0), H), Fraction(1)))
    obs.append(make_finite((1, 1), (H, Fraction(1)), Fraction(1)))
    if tier == "thorough":
        obs.append(make_symbolic_beta((1, 2, 1, 1)))
        obs.append(make_symbolic_beta((2, 2, 1), free_final=True))
        obs.append(make_symbolic_beta((2,), free_final=True))
        obs.append(make_finite((2, 2, 1), (Fraction(0), H, Fraction(1)), Fraction(1)))
        obs.append(make_finite((1, 2), (Fraction(0), Fraction(1)), H))
    return obs
