"""C15 (partial) - weighted mixture M-step invariants and hierarchical clustering control logic."""
from __future__ import annotations

import math
from fractions import Fraction

import numpy as np
import z3

import tempest.cluster as cluster_mod
from tempest.cluster import GaussianMixture, HierarchicalGaussianMixture

from vf.engine.core import PathCtx
from vf.engine.harness import Obligation
from vf.engine.real import SymReal
from vf.engine.arr import NpProxy, patched, sarr
from vf.engine.util import real, reals, eq, le, lt, integer, scalar

PROPERTY_ID = "C15"
ASSUMPTIONS = [
    "claimed in part: (1) the M-step / covariance update on symbolic data, responsibilities and sample weights (exact reals); "
    "(2) the control logic of the hierarchical model with the inner GaussianMixture replaced by a contract double (arbitrary BIC values, "
    "arbitrary child labels). E-step/BIC numerics (scipy pdf), EM convergence, k-means++ initialisation, 'tied'/'spherical' are outside the claim",
    "round-off obligations use the standard model of binary64 arithmetic (vf.engine.rnd): a proof there is a proof for the real arithmetic, a counterexample is only a candidate until replayed on doubles",
    "the k-means++ initialisation is run on symbolic 1-d data with the range abstraction of exp (0 below -745.1); the centre selection draws are symbolic",
]


def _sum(xs):
    t = xs[0]
    for x in xs[1:]:
        t = t + x
    return t


def run_mstep(gm, X, R, w):
    with patched(cluster_mod, np=NpProxy(object_constructors=True)):
        return gm._m_step(X, R, w)


def make_mstep(n, d, K, cov_type):
    def harness(ctx: PathCtx):
        X = [[real(ctx, f"x{i}_{j}") for j in range(d)] for i in range(n)]
        R = [[real(ctx, f"r{i}_{k}", lo=0) for k in range(K)] for i in range(n)]
        w = reals(ctx, "w", n, lo=0)
        ctx.assume(_sum(w).n > 0)
        mass = [_sum([R[i][k] * w[i] for i in range(n)]) for k in range(K)]
        ctx.assume(_sum(mass).n > 0)
        gm = GaussianMixture(n_components=K, covariance_type=cov_type)
        weights, means, covs = run_mstep(gm, sarr(X), sarr(R), sarr(w))
        ctx.check("weights-nonnegative", z3.And(*[le(0, weights[k]) for k in range(K)]))
        ctx.check("weights-sum-to-one", eq(_sum(list(weights)), 1))
        conds = []
        for k in range(K):
            C = covs[k]
            if cov_type == "diag":
                conds += [le(0, C[j]) for j in range(d)]
            elif d == 1:
                conds.append(le(0, C[0][0]))
            else:
                conds.append(eq(C[0][1], C[1][0]))
                conds += [le(0, C[0][0]), le(0, C[1][1]), le(0, C[0][0] * C[1][1] - C[0][1] * C[1][0])]
        ctx.check("covariances-symmetric-positive-semidefinite", z3.And(*conds))
        # means of components with non-negligible mass lie in the (slightly enlarged) bounding box
        eps = Fraction(1e-10)  # the double the code adds
        conds = []
        for k in range(K):
            heavy = le(Fraction(1, 1000), mass[k])
            for j in range(d):
                col = [X[i][j] for i in range(n)]
                inside = []
                for bound_is_min in (True, False):
                    # exists i: x_i is the min (max) and mean within tolerance of it -> encode: mean >= min - tol as AND over "is min" cases
                    pass
                # mean*(R+eps) = sum r_i w_i x_i  =>  min x * R <= mean*(R+eps) <= max x * R ; stated without min/max:
                num = means[k][j] * (mass[k] + eps)
                lo_ok = z3.Or(*[z3.And(*[le(col[a], col[b]) for b in range(n)], le(col[a] * mass[k], num)) for a in range(n)])
                hi_ok = z3.Or(*[z3.And(*[le(col[b], col[a]) for b in range(n)], le(num, col[a] * mass[k])) for a in range(n)])
                conds.append(z3.Implies(heavy, z3.And(lo_ok, hi_ok)))
        ctx.check("mean-is-the-(regularised)-convex-combination-of-the-data", z3.And(*conds))
        return None

    def concrete(m):
        X = np.array([[float(m[f"x{i}_{j}"]) for j in range(d)] for i in range(n)])
        R = np.array([[float(m[f"r{i}_{k}"]) for k in range(K)] for i in range(n)])
        w = np.array([float(m[f"w{i}"]) for i in range(n)])
        return X, R, w

    def replay(m, label, v):
        X, R, w = concrete(m)
        gm = GaussianMixture(n_components=K, covariance_type=cov_type)
        weights, means, covs = gm._m_step(X, R, w)
        bad = False
        if label == "weights-nonnegative":
            bad = bool(np.any(weights < 0))
        elif label == "weights-sum-to-one":
            bad = not math.isclose(weights.sum(), 1.0, rel_tol=1e-9)
        elif label.startswith("covariances"):
            for k in range(K):
                C = np.diag(covs[k]) if cov_type == "diag" else covs[k]
                if not np.allclose(C, C.T) or np.min(np.linalg.eigvalsh((C + C.T) / 2)) < -1e-9 * max(1.0, np.abs(C).max()):
                    bad = True
        else:
            mass = (R * w[:, None]).sum(axis=0)
            for k in range(K):
                if mass[k] >= 1e-3:
                    tol = 1e-10 / mass[k] * np.abs(X).max() + 1e-9 * np.abs(X).max()
                    if np.any(means[k] < X.min(axis=0) - tol) or np.any(means[k] > X.max(axis=0) + tol):
                        bad = True
        return {"reproduced": bool(bad), "signature": f"m_step:{cov_type}:{label}",
                "payload": {"X": X.tolist(), "resp": R.tolist(), "w": w.tolist(), "weights": weights.tolist(), "means": means.tolist(),
                            "covs": np.asarray(covs).tolist()},
                "what": f"GaussianMixture({cov_type})._m_step on X={X.tolist()}, resp={R.tolist()}, w={w.tolist()}: weights {weights.tolist()}, "
                        f"means {means.tolist()}, covariances {np.asarray(covs).tolist()} violate {label}"}

    return Obligation(f"mstep-{cov_type}-n{n}-d{d}-K{K}", harness, replay=replay, encodes=[GaussianMixture._m_step, GaussianMixture._compute_covariances],
                      bounds=f"n={n} points, d={d}, K={K} components, covariance_type={cov_type}; symbolic data, non-negative responsibilities and sample weights",
                      stubs=["np.zeros -> object arrays"], theory="QF_NRA", timeout_ms=30000)


def make_replicas(d, cov_type):
    """integer sample weight 2 on a point == the point listed twice (same responsibilities)."""
    K = 2

    def harness(ctx: PathCtx):
        x = [[real(ctx, f"x{i}_{j}") for j in range(d)] for i in range(2)]
        r = [[real(ctx, f"r{i}_{k}", lo=0) for k in range(K)] for i in range(2)]
        for k in range(K):
            ctx.assume((2 * r[0][k] + r[1][k]).n > 0)
        gm = GaussianMixture(n_components=K, covariance_type=cov_type)
        A = run_mstep(gm, sarr(x), sarr(r), sarr([SymReal.const(2), SymReal.const(1)]))
        B = run_mstep(gm, sarr([x[0], x[0], x[1]]), sarr([r[0], r[0], r[1]]), sarr([SymReal.const(1)] * 3))
        # _m_step is called by fit() after normalising the weights to sum 1: same normalisation on both sides
        conds = [eq(a, b) for a, b in zip(list(A[0]), list(B[0]))]
        conds += [eq(a, b) for a, b in zip(np.asarray(A[1], dtype=object).reshape(-1), np.asarray(B[1], dtype=object).reshape(-1))]
        conds += [eq(a, b) for a, b in zip(np.asarray(A[2], dtype=object).reshape(-1), np.asarray(B[2], dtype=object).reshape(-1))]
        ctx.check("integer-weight==replication", z3.And(*conds))
        return None

    def replay(m, label, v):
        x = np.array([[float(m[f"x{i}_{j}"]) for j in range(d)] for i in range(2)])
        r = np.array([[float(m[f"r{i}_{k}"]) for k in range(K)] for i in range(2)])
        gm = GaussianMixture(n_components=K, covariance_type=cov_type)
        A = gm._m_step(x, r, np.array([2.0, 1.0]))
        B = gm._m_step(np.array([x[0], x[0], x[1]]), np.array([r[0], r[0], r[1]]), np.ones(3))
        bad = not (np.allclose(A[0], B[0], rtol=1e-7) and np.allclose(A[1], B[1], rtol=1e-7, atol=1e-12) and np.allclose(A[2], B[2], rtol=1e-6, atol=1e-12))
        return {"reproduced": bool(bad), "signature": f"m_step:{cov_type}:replication", "payload": {"x": x.tolist(), "r": r.tolist()},
                "what": f"_m_step with weight 2 on {x[0].tolist()} differs from listing the point twice: means {A[1].tolist()} vs {B[1].tolist()}"}

    return Obligation(f"replicas-{cov_type}-d{d}", harness, replay=replay, encodes=[GaussianMixture._m_step],
                      bounds=f"2 points (weights 2,1) vs 3 points (weights 1,1,1), d={d}, K=2", theory="QF_NRA", timeout_ms=30000)


def make_mstep_rounding(n=2, cov_type="full", xmax=10 ** 8):
    """the M-step in the round-off model of binary64 (vf.engine.rnd): data of any magnitude up to xmax, responsibilities and sample
    weights in [0,1], component of non-negligible mass. A covariance formula that subtracts moments (E[xx^T] - mu mu^T) loses
    positive semidefiniteness through cancellation; the centred formula cannot (every term keeps its sign under rounding)."""
    from vf.engine.rnd import SymRnd, FloatNonFinite, rnd_array

    def harness(ctx: PathCtx):
        X = [[real(ctx, f"x{i}", lo=-xmax, hi=xmax)] for i in range(n)]
        R = [[real(ctx, f"r{i}", lo=0, hi=1)] for i in range(n)]
        w = [real(ctx, f"w{i}", lo=0, hi=1) for i in range(n)]
        ctx.assume(_sum([R[i][0] * w[i] for i in range(n)]).n >= z3.RealVal("1/1000") * _sum([R[i][0] * w[i] for i in range(n)]).d)
        gm = GaussianMixture(n_components=1, covariance_type=cov_type)
        try:
            weights, means, covs = run_mstep(gm, rnd_array(X, (-xmax, xmax)), rnd_array(R, (0, 1)), rnd_array(w, (0, 1)))
        except FloatNonFinite as e:
            ctx.fail("m-step-results-finite", str(e))
            return None
        ctx.ok("m-step-results-finite")
        c = SymRnd.lift(covs[0][0][0] if cov_type == "full" else covs[0][0]).v
        ctx.check("variance-nonnegative-under-rounding", le(0, c))
        wsum = SymRnd.lift(_sum(list(weights))).v
        eps = Fraction(1, 10 ** 9)
        ctx.check("weights-sum-to-one-under-rounding", z3.And(le(1 - eps, wsum), le(wsum, 1 + eps)))
        return None

    def replay(m, label, v):
        """cancellation needs data far from the origin relative to its spread: the model's point, then the same configuration
        translated / tightened (responsibilities and weights from the model)."""
        R = np.array([[float(m.get(f"r{i}", 1.0))] for i in range(n)])
        w = np.array([float(m.get(f"w{i}", 1.0)) for i in range(n)])
        if (R[:, 0] * w).sum() < 1e-3:
            R, w = np.ones((n, 1)), np.ones(n) / n
        x0 = np.array([[float(m.get(f"x{i}", 0.0))] for i in range(n)])
        cands = [x0]
        for off in (1e4, 1e6, 1e7, 9e7):
            for spread in (1e-3, 1e-5, 1e-7, 0.0):
                for sgn in (1.0, -1.0):
                    cands.append(sgn * (off + spread * np.arange(n, dtype=float).reshape(n, 1) * np.array([[1.0]])))
                    cands.append(sgn * (off + spread * np.array([[(7 * i) % 3 - 1.0] for i in range(n)])))
        for Rr, ww in ((R, w), (np.ones((n, 1)), np.ones(n) / n), (np.full((n, 1), 1 / 3), np.linspace(0.3, 1.0, n))):
            for X in cands:
                gm = GaussianMixture(n_components=1, covariance_type=cov_type)
                with np.errstate(all="ignore"):
                    weights, means, covs = gm._m_step(X.copy(), Rr.copy(), ww.copy())
                c = float(np.asarray(covs).ravel()[0])
                if not (c >= 0) or not math.isclose(float(np.sum(weights)), 1.0, rel_tol=1e-9):
                    return {"reproduced": True, "signature": f"m_step:{cov_type}:negative-variance-by-cancellation" if not (c >= 0) else f"m_step:{cov_type}:weights-sum",
                            "payload": {"X": X.ravel().tolist(), "resp": Rr.ravel().tolist(), "w": ww.tolist(), "variance": c, "weights": np.asarray(weights).tolist()},
                            "what": f"GaussianMixture({cov_type})._m_step on X={X.ravel().tolist()}, resp={Rr.ravel().tolist()}, w={ww.tolist()} gives variance {c!r} "
                                    f"and weights {np.asarray(weights).tolist()}"}
        return {"reproduced": False, "what": "no double-precision instance of the cancellation found in the replay family"}

    return Obligation(f"mstep-roundoff-{cov_type}-n{n}-d1", harness, replay=replay, encodes=[GaussianMixture._m_step, GaussianMixture._compute_covariances],
                      bounds=f"n={n} points, d=1, K=1: |x| <= {xmax}, responsibilities and sample weights in [0,1], component mass >= 1e-3",
                      stubs=["binary64 + - * / -> standard round-off model with gradual underflow and sign preservation (sound over-approximation)", "np.zeros -> object arrays"],
                      theory="QF_NRA", timeout_ms=120000)


def make_init_responsibilities(n, K, xmax=1000):
    """k-means++-style initialisation of the real GaussianMixture on symbolic 1-d data of any spread: the initial responsibilities
    (a softmax of squared distances to the chosen centres) must be normalisable for every point. In double precision exp(-d^2/2) is
    exactly 0 beyond d ~ 38.6; the range abstraction of exp (C04's RangeFloatOps) makes that visible to the real-arithmetic solver."""
    from vf.engine.core import DomainError
    from vf.props.c04 import RangeFloatOps

    class Stop(Exception):
        pass

    def harness(ctx: PathCtx):
        xs = [real(ctx, f"x{i}", lo=-xmax, hi=xmax) for i in range(n)]
        for a, b in zip(xs, xs[1:]):
            ctx.assume(a.term() < b.term())  # distinct points, sorted (w.l.o.g.)
        X = sarr([[x] for x in xs])
        sw = sarr([SymReal.const(Fraction(1, n))] * n)
        rfo = RangeFloatOps(ctx)
        draws = {"k": 0}

        class Rng:
            def rand(self, *a):
                draws["k"] += 1
                return real(ctx, f"rand{draws['k']}", lo=0, hi=1, hi_strict=True)

        def searchsorted(cum, r, side="left"):
            cum = list(np.asarray(cum, dtype=object).reshape(-1))
            idx = 0
            for c in cum:
                if bool(c < r):
                    idx += 1
                else:
                    break
            return min(idx, len(cum))
        gm = GaussianMixture(n_components=K, covariance_type="full")
        gm._rng = Rng()
        seen = {}

        def capture(X_, resp, w_):
            seen["resp"] = np.asarray(resp, dtype=object).copy()
            raise Stop()
        gm._m_step = capture
        try:
            with patched(cluster_mod, np=NpProxy(object_constructors=True, overrides={"exp": rfo.exp, "searchsorted": searchsorted})):
                gm._initialize_parameters(X, sw)
        except Stop:
            pass
        except DomainError as e:
            ctx.fail("initial-responsibilities-are-normalisable(no 0/0)", f"division by a row sum that is exactly 0 in double precision: {e}")
            return None
        except IndexError as e:
            ctx.fail("initial-centres-are-data-points", f"IndexError: {e}")
            return None
        ctx.ok("initial-responsibilities-are-normalisable(no 0/0)")
        R = seen["resp"]
        conds = []
        for i in range(n):
            row = [SymReal.lift(v) if not isinstance(v, float) else SymReal.const(Fraction(v)) for v in R[i]]
            conds.append(eq(_sum(row), 1))
            conds += [le(0, v) for v in row]
        ctx.check("initial-responsibilities-rows-are-distributions", z3.And(*conds))
        return None

    def replay(m, label, v):
        import warnings as _w
        xs0 = np.array([float(m.get(f"x{i}", i)) for i in range(n)])
        cands = [xs0] + [np.arange(n, dtype=float) * sp for sp in (50.0, 300.0, 900.0 / max(n - 1, 1))]
        for xs in cands:
            X = xs.reshape(n, 1)
            for seed in range(4):
                with _w.catch_warnings(), np.errstate(all="ignore"):
                    _w.simplefilter("ignore")
                    g = GaussianMixture(n_components=K, random_state=seed).fit(X)
                bad = not (np.all(np.isfinite(g.weights_)) and np.all(np.isfinite(g.means_)) and np.all(np.isfinite(g.covariances_))
                           and abs(float(np.sum(g.weights_)) - 1.0) < 1e-8)
                if bad:
                    return {"reproduced": True, "signature": "GaussianMixture.fit:initial-responsibilities-underflow", "payload": {"X": xs.tolist(), "seed": seed, "weights": np.asarray(g.weights_).tolist()},
                            "what": f"GaussianMixture(n_components={K}, random_state={seed}).fit on the points {xs.tolist()}: weights {np.asarray(g.weights_).tolist()}, "
                                    f"means {np.asarray(g.means_).ravel().tolist()} - a point farther than ~38.6 from every initial centre gets responsibilities 0/0"}
        return {"reproduced": False, "what": "fits on the model's points and on spreads 50/300/900 are finite"}

    return Obligation(f"init-responsibilities-n{n}-K{K}", harness, replay=replay, encodes=[GaussianMixture._initialize_parameters],
                      bounds=f"n={n} distinct 1-d points with |x| <= {xmax}, K={K}, uniform sample weights, symbolic draws for the centre selection",
                      stubs=["np.exp -> range abstraction of the double-precision exponential (0 below -745.1)", "np.searchsorted -> forking model", "rng.rand -> symbolic draws",
                             "_m_step -> capture of the initial responsibilities"], theory="QF_NRA", timeout_ms=30000, max_paths=4000)


def make_estep_mstep(n=2, K=1):
    """one E-step followed by one M-step of the real mixture code with the component densities as arbitrary positive numbers (the
    scipy pdf is a double returning symbolic values: densities of data in large units or many dimensions are tiny): the
    responsibilities of every point must sum to one, the mixing weights must sum to one and the mean of a component whose *mixing
    weight* is not negligible must lie inside the data's bounding box."""
    import scipy.stats as _st
    from vf.engine.arr import patched_attr

    def harness(ctx: PathCtx):
        xs = [real(ctx, f"x{i}", lo=-10 ** 6, hi=10 ** 6) for i in range(n)]
        ctx.assume(xs[0].term() < xs[1].term())
        dens = [[real(ctx, f"p{i}_{k}", lo=0, lo_strict=True, hi=10 ** 6) for k in range(K)] for i in range(n)]
        calls = {"k": 0}

        class PdfDouble:
            @staticmethod
            def pdf(X_, mean=None, cov=None, **kw):
                k = calls["k"]
                calls["k"] += 1
                return sarr([dens[i][k % K] for i in range(n)])
        gm = GaussianMixture(n_components=K, covariance_type="full")
        X = sarr([[x] for x in xs])
        sw = sarr([SymReal.const(Fraction(1, n))] * n)
        mix = np.full(K, 1.0 / K)
        with patched(cluster_mod, np=NpProxy(object_constructors=True)), patched_attr(_st, multivariate_normal=PdfDouble):
            R = gm._e_step(X, mix, np.zeros((K, 1)), np.ones((K, 1, 1)))
            weights, means, covs = gm._m_step(X, R, sw)
        tiny = Fraction(1, 10 ** 9)
        rows = [_sum([SymReal.lift(R[i][k]) for k in range(K)]) for i in range(n)]
        ctx.check("responsibilities-of-every-point-sum-to-one(1e-9)", z3.And(*[z3.And(le(1 - tiny, r_), le(r_, 1 + tiny)) for r_ in rows]))
        ctx.check("weights-sum-to-one", eq(_sum([SymReal.lift(w_) for w_ in weights]), 1))
        conds = []
        for k in range(K):
            heavy = le(Fraction(1, 1000), SymReal.lift(weights[k]))
            mk = SymReal.lift(means[k][0])
            span = xs[-1] - xs[0]
            # the M-step's own regulariser (mass + 1e-10 in the denominator) moves the mean of a component of mass >= 1e-3 by a relative
            # 1e-7 at most: 0.1 for |x| <= 1e6 (the exact-real M-step obligations state the same tolerance as a regularised convex combination)
            slack = Fraction(1, 5)
            conds.append(z3.Implies(heavy, z3.And(le(xs[0] - slack, mk), le(mk, xs[-1] + slack))))
        ctx.check("mean-of-a-component-with-non-negligible-weight-is-inside-the-bounding-box", z3.And(*conds))
        return None

    def replay(m, label, v):
        import warnings as _w
        rng = np.random.RandomState(0)
        for dim, sigma in ((6, 1e3), (6, 3e3), (3, 1e5), (1, 1e12)):
            X = 50 * sigma + sigma * rng.randn(300, dim)
            with _w.catch_warnings(), np.errstate(all="ignore"):
                _w.simplefilter("ignore")
                g = GaussianMixture(n_components=1, random_state=1).fit(X)
            mean, w = g.means_[0], g.weights_
            inside = bool(np.all((mean >= X.min(0)) & (mean <= X.max(0))))
            okw = bool(np.all(np.isfinite(w)) and abs(float(w.sum()) - 1) < 1e-8)
            if not (inside and okw):
                return {"reproduced": True, "signature": "GaussianMixture.fit:responsibilities-do-not-sum-to-one:low-density-data", "payload": {"dim": dim, "sigma": sigma, "weights": np.asarray(w).tolist(), "mean0": float(mean[0]), "data_mean0": float(X.mean(0)[0])},
                        "what": f"GaussianMixture(n_components=1).fit on one {dim}-d Gaussian blob with sigma {sigma:g} around {50 * sigma:g}: weights {np.asarray(w).tolist()}, mean[0] = {float(mean[0]):.6g} "
                                f"(data mean {float(X.mean(0)[0]):.6g}, box [{float(X.min(0)[0]):.6g}, {float(X.max(0)[0]):.6g}]): the E-step divides by (row sum + 1e-10), densities here are far below 1e-10"}
        return {"reproduced": False, "what": "single blobs in large units are fitted with the mean inside the box"}

    return Obligation(f"estep-mstep-n{n}-K{K}", harness, replay=replay, encodes=[GaussianMixture._e_step, GaussianMixture._m_step],
                      bounds=f"n={n} points in [-1e6, 1e6], d=1, K={K}, uniform sample weights, component densities arbitrary in (0, 1e6]",
                      stubs=["scipy.stats.multivariate_normal.pdf -> symbolic positive densities", "np.zeros -> object arrays"], theory="QF_NRA", timeout_ms=30000)


def make_mstep_fp(n=2):
    """bit-precise: the 'full' covariance of one component in d=1 is never negative, for ALL doubles in a wide range
    (catastrophic cancellation in a moment-difference formula would show up here)."""
    from vf.engine.fp import SymFP, FP, fpval
    import z3 as _z3

    def harness(ctx: PathCtx):
        def var(name, lo, hi):
            t = ctx.register(name, _z3.FP(name, FP))
            ctx.assume(_z3.And(_z3.fpGEQ(t, fpval(lo)), _z3.fpLEQ(t, fpval(hi))))
            return SymFP(t)
        X = [[var(f"x{i}", -1e8, 1e8)] for i in range(n)]
        R = [[var(f"r{i}", 0.0, 1.0)] for i in range(n)]
        w = [var(f"w{i}", 0.0, 1.0) for i in range(n)]
        tot = R[0][0] * w[0]
        for i in range(1, n):
            tot = tot + R[i][0] * w[i]
        ctx.assume(_z3.fpGEQ(tot.z, fpval(1e-3)))  # component of non-negligible mass
        gm = GaussianMixture(n_components=1, covariance_type="full")
        weights, means, covs = run_mstep(gm, sarr(X), sarr(R), sarr(w))
        c = covs[0][0][0]
        ctx.observe("cov", c.z)
        ctx.check("variance-nonnegative(all doubles)", _z3.fpGEQ(c.z, fpval(0.0)))
        return None

    def replay(m, label, v):
        X = np.array([[float(m[f"x{i}"])] for i in range(n)])
        R = np.array([[float(m[f"r{i}"])] for i in range(n)])
        w = np.array([float(m[f"w{i}"]) for i in range(n)])
        gm = GaussianMixture(n_components=1, covariance_type="full")
        _, means, covs = gm._m_step(X, R, w)
        c = float(covs[0][0][0])
        return {"reproduced": not (c >= 0), "signature": "m_step:full:negative-variance", "payload": {"X": X.tolist(), "resp": R.tolist(), "w": w.tolist(), "cov": c},
                "what": f"GaussianMixture._m_step on X={X.ravel().tolist()}, resp={R.ravel().tolist()}, w={w.tolist()} gives variance {c!r} < 0"}

    def validate(wit, ret):
        X = np.array([[float(wit[f"x{i}"])] for i in range(n)])
        R = np.array([[float(wit[f"r{i}"])] for i in range(n)])
        w = np.array([float(wit[f"w{i}"]) for i in range(n)])
        gm = GaussianMixture(n_components=1, covariance_type="full")
        _, _, covs = gm._m_step(X, R, w)
        import struct
        a, b = float(covs[0][0][0]), float(wit["obs:cov"])
        same = struct.pack("<d", a) == struct.pack("<d", b)
        return (same, f"numpy {a!r} vs bit-precise encoding {b!r}")

    return Obligation(f"mstep-fp-n{n}-d1", harness, replay=replay, validate=validate, encodes=[GaussianMixture._m_step, GaussianMixture._compute_covariances],
                      bounds=f"n={n} points, d=1, K=1: all doubles x in [-1e8,1e8], responsibilities and sample weights in [0,1], mass >= 1e-3 (QF_FP)",
                      stubs=["np.zeros -> object arrays"], theory="QF_FP", timeout_ms=240000)


# ------------------------------------------------------------------ hierarchical control logic


class GMDouble:
    """contract double for the inner mixture: arbitrary BIC, arbitrary child labels."""
    ctx = None
    counter = 0

    def __init__(self, n_components=1, covariance_type="full", n_init=1, random_state=None, **kw):
        self.n_components = n_components
        self.covariance_type = covariance_type

    def fit(self, data, sample_weight=None):
        self.data = np.asarray(data, dtype=float)
        self.means_ = np.array([self.data.mean(axis=0)] * self.n_components)
        d = self.data.shape[1]
        self.covariances_ = np.array([np.eye(d) * 0.01] * self.n_components)
        self.weights_ = np.ones(self.n_components) / self.n_components
        return self

    def bic(self, data):
        GMDouble.counter += 1
        return real(GMDouble.ctx, f"bic{GMDouble.counter}", lo=-100, hi=100)

    contiguous = False

    def predict(self, data):
        GMDouble.counter += 1
        c = GMDouble.counter
        n = len(data)
        if GMDouble.contiguous:
            # child labels restricted to contiguous splits (first k points -> child 0): n+1 patterns instead of 2^n
            k = integer(GMDouble.ctx, f"cut{c}", lo=0, hi=n).resolve(0, n)
            return np.array([0] * k + [1] * (n - k), dtype=int)
        return np.array([integer(GMDouble.ctx, f"child{c}_{i}", lo=0, hi=1).resolve(0, 1) for i in range(n)], dtype=int)


class GMScripted(GMDouble):
    """concrete twin of GMDouble for replays: BIC values and child labels are read from a solver model."""
    model = {}

    def bic(self, data):
        GMDouble.counter += 1
        return float(GMScripted.model.get(f"bic{GMDouble.counter}", 0.0))

    def predict(self, data):
        GMDouble.counter += 1
        c, n = GMDouble.counter, len(data)
        if GMDouble.contiguous:
            k = int(GMScripted.model.get(f"cut{c}", 0))
            return np.array([0] * k + [1] * (n - k), dtype=int)
        return np.array([int(GMScripted.model.get(f"child{c}_{i}", 0)) for i in range(n)], dtype=int)


def make_hier(n, max_iterations, normalize, contiguous=False, refit=False):
    """refit=True: the same model object is fitted a second time on data with the same bounding box (the sampler refits one
    clusterer object every cluster_every iterations); every invariant must hold for the second fit as well."""
    X = (np.arange(n, dtype=float).reshape(n, 1) * 0.13 + 0.1) % 1.0
    W = np.linspace(1.0, 2.0, n)
    q = np.array([[-0.3], [0.05], [0.5], [0.97], [1.8]])

    def verdicts(gm_cls):
        """runs the real hierarchical model on top of the given inner-mixture class; yields (label, ok, detail)."""
        out = []
        h = HierarchicalGaussianMixture(n_init=1, max_iterations=max_iterations, min_points=None, threshold_modifier=1.0, normalize=normalize)
        rounds = [("", X, W)] + ([("refit:", X[::-1].copy(), W[::-1].copy())] if refit else [])
        for tag, Xr, Wr in rounds:
            with patched(cluster_mod, GaussianMixture=gm_cls):
                h.fit(Xr.copy(), Wr.copy())
            K = h.n_clusters_
            lab = h.labels_
            out.append((tag + "every-training-point-has-exactly-one-label-in-[0,K)", bool(len(lab) == n and np.all(lab >= 0) and np.all(lab < K)), None))
            out.append((tag + "cluster-cap-respected", bool(K <= max_iterations + 1), K))
            min_points = 2 * X.shape[1]
            sizes = [int(np.sum(lab == k)) for k in range(K)]
            out.append((tag + "no-accepted-split-leaves-a-child-below-min-points", bool(K == 1 or all(s_ >= min_points for s_ in sizes)), sizes))
            out.append((tag + "every-cluster-non-empty", bool(all(s_ > 0 for s_ in sizes)), sizes))
            try:
                p = h.predict(q)
                out.append((tag + "predict-labels-in-[0,K)", bool(len(p) == len(q) and np.all(p >= 0) and np.all(p < K)), {"labels": np.asarray(p).tolist(), "K": int(K)}))
                pp = h.predict_proba(q)
                out.append((tag + "predict_proba-rows-sum-to-one", bool(pp.shape == (len(q), K) and np.allclose(pp.sum(axis=1), 1.0)), {"shape": list(pp.shape), "K": int(K)}))
                pt = h.predict(Xr)
                out.append((tag + "predict-on-training-points-in-[0,K)", bool(len(pt) == n and np.all(pt >= 0) and np.all(pt < K)), None))
            except Exception as e:
                out.append((tag + "predict-labels-in-[0,K)", False, f"raised {type(e).__name__}: {e}"))
            out.append((tag + "cluster-weights-sum-to-one", bool(math.isclose(float(np.sum(h.cluster_weights_)), 1.0, rel_tol=1e-9)), None))
            out.append((tag + "one-center-covariance-weight-per-cluster",
                        bool(len(h.cluster_centers_) == K and len(h.cluster_covariances_) == K and len(h.cluster_weights_) == K), None))
        return out

    def harness(ctx: PathCtx):
        GMDouble.ctx = ctx
        GMDouble.counter = 0
        GMDouble.contiguous = contiguous
        res = verdicts(GMDouble)
        for label, ok, detail in res:
            ctx.check(label, z3.BoolVal(ok), detail=detail)
        return None

    def replay(m, label, v):
        GMDouble.counter = 0
        GMDouble.contiguous = contiguous
        GMScripted.model = {k: (float(x) if not isinstance(x, (bool, str)) else x) for k, x in m.items()}
        try:
            res = verdicts(GMScripted)
        except Exception as e:
            res = [(label, False, f"raised {type(e).__name__}: {e}")]
        bad = [(l_, d_) for l_, ok, d_ in res if not ok]
        hit = [b for b in bad if b[0] == label] or bad
        return {"reproduced": bool(bad), "signature": f"hierarchical:{(hit[0][0] if hit else label)}", "payload": {"violated": [b[0] for b in bad][:4], "detail": str(hit[0][1]) if hit else None},
                "what": f"HierarchicalGaussianMixture (real fit/predict; inner mixture scripted with the model's BIC values and child labels"
                        f"{', fitted twice on data with the same bounding box' if refit else ''}) violates {(hit[0][0] if hit else label)}: {hit[0][1] if hit else ''}"}

    return Obligation(f"hier-n{n}-maxit{max_iterations}-{'norm' if normalize else 'raw'}{'-contiguous' if contiguous else ''}{'-refit' if refit else ''}", harness, replay=replay,
                      encodes=[HierarchicalGaussianMixture.fit, HierarchicalGaussianMixture.predict, HierarchicalGaussianMixture.predict_proba],
                      bounds=f"{n} concrete 1-d points, max_iterations={max_iterations}, arbitrary (symbolic) BIC values and child labels of the inner mixture"
                             + (", two consecutive fits of one object" if refit else ""),
                      stubs=["GaussianMixture -> contract double (symbolic bic(), symbolic predict())"], theory="QF_LRA/LIA", max_paths=30000)


def make_fit_weight_contract(n):
    """the precondition under which the E/M-step obligations are stated - the EM steps see sample weights that sum to one - is itself
    a property of the real GaussianMixture.fit: for ANY non-negative weight vector with positive sum (any overall magnitude) every internal
    step receives w_i / sum(w). The steps themselves are replaced by recording doubles here (they are decided in their own obligations)."""

    def harness(ctx: PathCtx):
        w = reals(ctx, "w", n, lo=0)
        tot = w[0]
        for x in w[1:]:
            tot = tot + x
        ctx.assume(tot.n > 0)
        X = np.array([[float(i)] for i in range(n)])
        seen = []
        gm = GaussianMixture(n_components=1, max_iter=2, n_init=1, random_state=0)

        def init(self, X_, sw):
            seen.append(("initialisation", sw))
            return np.array([1.0]), np.array([[0.0]]), np.array([[[1.0]]])

        def estep(self, X_, weights, means, covs):
            return np.ones((n, 1))

        def mstep(self, X_, resp, sw):
            seen.append(("M-step", sw))
            return np.array([1.0]), np.array([[0.0]]), np.array([[[1.0]]])

        def lb(self, X_, weights, means, covs, sw):
            seen.append(("lower bound", sw))
            return 0.0
        from vf.engine.arr import patched_attr
        with patched(cluster_mod, np=NpProxy(object_constructors=True)), \
                patched_attr(GaussianMixture, _initialize_parameters=init, _e_step=estep, _m_step=mstep, _compute_lower_bound=lb):
            gm.fit(X, sarr(list(w)))
        ctx.check("steps-were-reached", z3.BoolVal(len(seen) >= 3))
        conds = []
        for name, sw in seen:
            sw = list(np.asarray(sw, dtype=object).reshape(-1))
            conds.append(z3.And(*[eq(SymReal.lift(sw[i]) * tot, w[i]) for i in range(n)]))
        ctx.check("every-EM-step-receives-w/sum(w)", z3.And(*conds) if conds else z3.BoolVal(False))
        return None

    def replay(m, label, v):
        w = np.array([float(m.get(f"w{i}", 1.0)) for i in range(n)])
        X = np.array([[float(i)] for i in range(n)])
        bad = None
        for scale in (1.0, 1e-12, 1e-30, 1e6):
            ws = w * scale
            if not ws.sum() > 0:
                continue
            got = []
            orig = GaussianMixture._m_step

            def spy(self, X_, resp, sw):
                got.append(np.array(sw, dtype=float))
                return orig(self, X_, resp, sw)
            GaussianMixture._m_step = spy
            try:
                with np.errstate(all="ignore"):
                    GaussianMixture(n_components=1, max_iter=2, n_init=1, random_state=0).fit(X, ws)
            finally:
                GaussianMixture._m_step = orig
            if got and not np.allclose(got[0], ws / ws.sum(), rtol=1e-9, atol=0):
                bad = (ws.tolist(), got[0].tolist())
                break
        return {"reproduced": bad is not None, "signature": "fit:EM-steps-see-unnormalised-weights", "payload": {"weights": bad[0] if bad else None, "seen_by_m_step": bad[1] if bad else None},
                "what": (f"GaussianMixture.fit(X, sample_weight={bad[0]}) hands the M-step the weights {bad[1]} (sum {sum(bad[1])!r}, not w/sum(w)): the absolute guards "
                         f"1e-10 of the steps are only harmless for weights that sum to one" if bad else "the M-step receives w/sum(w) at every magnitude tried")}

    return Obligation(f"fit-weight-contract-n{n}", harness, replay=replay, encodes=[GaussianMixture.fit],
                      bounds=f"n={n} points, weights >= 0 with positive sum of ANY magnitude, 1 component, 2 EM iterations",
                      stubs=["_initialize_parameters / _e_step / _m_step / _compute_lower_bound -> recording doubles (decided in their own obligations)"], theory="QF_NRA")


def obligations(tier):
    # make_mstep_fp (bit-precise variance >= 0) is not scheduled: the QF_FP query with multipliers/dividers did not finish in 290 s;
    # make_mstep_rounding decides the same clause in the standard round-off model instead (sound for the real arithmetic)
    obs = [make_mstep(2, 1, 2, "full"), make_mstep(2, 2, 2, "diag"), make_mstep(2, 2, 1, "full"), make_mstep(3, 1, 1, "full"), make_replicas(1, "full"),
           make_hier(6, 1, True), make_hier(5, 2, False), make_hier(8, 2, False, contiguous=True),
           make_hier(4, 1, True, refit=True), make_mstep_rounding(2, "full"), make_init_responsibilities(3, 2), make_estep_mstep(2, 1), make_estep_mstep(2, 2), make_fit_weight_contract(3)]
    if tier == "thorough":
        # (n=3 with K=2 or d=2: the PSD query is undecided by nlsat within 30 s - not scheduled)
        obs += [make_mstep(2, 2, 2, "full"), make_mstep(3, 1, 1, "diag"), make_replicas(2, "full"), make_replicas(1, "diag"),
                make_hier(6, 2, True), make_hier(7, 2, False), make_hier(5, 1, False, refit=True), make_hier(6, 1, True, contiguous=True, refit=True),
                make_mstep_rounding(3, "full"), make_mstep_rounding(2, "diag")]
    return obs
