"""C07 - every stored or returned particle is a coherent (u, x, logL, blob) record."""
from __future__ import annotations

import math

import numpy as np
import z3

import tempest.mcmc as mcmc
import tempest.steps.mutate as mutate_mod
import tempest.steps.resample as resample_mod
import tempest.tools as tools
from tempest.state_manager import StateManager

from vf.engine.core import PathCtx, SymBool
from vf.engine.harness import Obligation
from vf.engine.real import SymReal
from vf.engine.arr import NpProxy, RandomStub, patched, patched_attr, sarr
from vf.engine.util import real, eq, le
from vf.props.mcmc_common import Callbacks, Draws, exp_as_uf, mcmc_proxy, sym_mode_stats, isinf_model

PROPERTY_ID = "C07"
ASSUMPTIONS = [
    "user callbacks are functions of their argument (uninterpreted PT: R^d->R^d, LL, BL; -inf likelihood as predicate INF(x))",
    "np.exp on plain reals is an uninterpreted positive function (acceptance probabilities are arbitrary positive values)",
    "random draws are arbitrary values satisfying the numpy contract",
]


def coherent_state(ctx, cb: Callbacks, n, d, tag="p", with_blobs=False):
    """arbitrary coherent pre-state rows."""
    u = [[real(ctx, f"{tag}u{k}_{j}", lo=0, hi=1) for j in range(d)] for k in range(n)]
    x = [cb.pt_terms(u[k]) for k in range(n)]
    logl = [cb.ll_term(x[k]) for k in range(n)]
    if cb.inf:
        for k in range(n):
            ctx.assume(z3.Not(cb.inf_term(x[k])))
    blobs = [cb.bl_term(x[k]) for k in range(n)] if with_blobs else None
    return u, x, logl, blobs


def check_rows(ctx, cb, label, u, x, logl, blobs, n, d):
    conds = []
    for k in range(n):
        conds.append(cb.coherent_row(list(u[k]), list(x[k]), logl[k], None if blobs is None else blobs[k]))
    return ctx.check(label, z3.And(*conds))


def concrete_callbacks(d, blobs):
    """a concrete instance used for replays: injective transforms so that mixed-up fields are visible."""
    def pt(u):
        return np.array([3.0 * u[j] + (j + 1) + 0.25 * u[(j + 1) % len(u)] for j in range(len(u))])

    def ll_point(xr):
        return -float(sum((xr[j] - 1.5) ** 2 * (j + 1) for j in range(len(xr))))

    def bl_point(xr):
        return float(sum(xr) * 7.0 + 1.0)

    def ll(x):
        x = np.atleast_2d(x)
        l = np.array([ll_point(r) for r in x])
        if blobs:
            return l, np.array([bl_point(r) for r in x])
        return l, None
    return pt, ll, ll_point, bl_point


def rows_coherent_concrete(u, x, logl, blobs, pt, ll_point, bl_point):
    for k in range(len(u)):
        if not np.allclose(x[k], pt(u[k]), rtol=1e-12, atol=0):
            return False, f"row {k}: x != prior_transform(u)"
        if not math.isclose(logl[k], ll_point(x[k]), rel_tol=1e-12, abs_tol=1e-12):
            return False, f"row {k}: logl != log_likelihood(x)"
        if blobs is not None and not math.isclose(blobs[k], bl_point(x[k]), rel_tol=1e-12):
            return False, f"row {k}: blob != blob(x)"
        if not (np.all(u[k] >= 0) and np.all(u[k] <= 1)):
            return False, f"row {k}: u outside the unit cube"
    return True, ""


# ------------------------------------------------------------------ Mutator.run, beta > 0 (one real kernel step)


def make_mutate(kernel, n, d, with_blobs, bounds_kind="hard"):
    periodic = [0] if bounds_kind == "periodic" else None
    reflective = [0] if bounds_kind == "reflective" else None

    def harness(ctx: PathCtx):
        cb = Callbacks(d, blobs=with_blobs)
        u, x, logl, blobs = coherent_state(ctx, cb, n, d, with_blobs=with_blobs)
        st = StateManager(n_dim=d)
        beta = real(ctx, "beta", lo=0, lo_strict=True, hi=1)
        st._current.update({"u": sarr(u), "x": sarr(x), "logl": sarr(logl), "blobs": sarr(blobs) if with_blobs else None,
                            "assignments": np.zeros(n, dtype=int), "beta": beta, "calls": 10, "iter": 2})
        ms = sym_mode_stats(ctx, d, 1, nu=3.0)
        mut = mutate_mod.Mutator(state=st, prior_transform=cb.prior_transform, log_likelihood=cb.log_likelihood, pbar=None,
                                 n_particles=n, n_dim=d, n_steps=1, n_max_steps=1, sampler=kernel, periodic=periodic,
                                 reflective=reflective, have_blobs=with_blobs)
        stub = RandomStub(Draws(ctx), max_calls=(2 if kernel == "tpcn" else 1) * n + 2)
        noadapt = lambda self, c, mean_accept: None
        with exp_as_uf(), patched(mcmc, np=mcmc_proxy(stub)), patched_attr(mcmc.TPCNRunner, _adapt_sigma=noadapt, _check_convergence=lambda self, acc: True), \
                patched_attr(mcmc.RWMRunner, _adapt_sigma=noadapt, _check_convergence=lambda self, acc: True):
            mut.run(ms)
        c = st._current
        check_rows(ctx, cb, "rows-coherent-after-mutation", c["u"], c["x"], c["logl"], c["blobs"] if with_blobs else None, n, d)
        ctx.check("shapes", z3.BoolVal(np.shape(c["u"]) == (n, d) and np.shape(c["x"]) == (n, d) and np.shape(c["logl"]) == (n,)))
        ctx.check("calls-count-likelihood-points", z3.BoolVal(c["calls"] == 10 + cb.n_like_points))
        return None

    def replay(m, label, v):
        pt, ll, ll_point, bl_point = concrete_callbacks(d, with_blobs)
        rng = np.random.RandomState(0)
        found = None
        for trial in range(200):
            u = rng.rand(n, d)
            x = np.array([pt(r) for r in u])
            l, b = ll(x)
            st = StateManager(n_dim=d)
            st.update_current({"u": u, "x": x, "logl": l, "blobs": b, "assignments": np.zeros(n, dtype=int), "beta": 0.7,
                               "calls": 10, "iter": 2})
            from tempest.modes import ModeStatistics
            ms = ModeStatistics(np.full((1, d), 0.5), (0.05 * np.eye(d)).reshape(1, d, d), np.array([3.0]))
            mut = mutate_mod.Mutator(state=st, prior_transform=pt, log_likelihood=ll, pbar=None, n_particles=n, n_dim=d,
                                     n_steps=1, n_max_steps=1, sampler=kernel, periodic=periodic, reflective=reflective,
                                     have_blobs=with_blobs)
            st0 = np.random.get_state()
            np.random.seed(trial)
            try:
                mut.run(ms)
            finally:
                np.random.set_state(st0)
            c = st.get_current()
            ok, why = rows_coherent_concrete(c["u"], c["x"], c["logl"], c["blobs"] if with_blobs else None, pt, ll_point, bl_point)
            if not ok:
                found = (trial, why, u.tolist())
                break
        if found is None:
            return {"reproduced": False, "what": "200 seeded concrete mutation steps stayed coherent"}
        return {"reproduced": True, "signature": f"Mutator.run:{kernel}:incoherent-record",
                "payload": {"seed": found[0], "u0": found[2], "kernel": kernel, "blobs": with_blobs},
                "what": f"Mutator.run({kernel}, blobs={with_blobs}) with np.random.seed({found[0]}) from u={found[2]}: {found[1]}"}

    return Obligation(f"mutate-{kernel}-n{n}-d{d}-{'blobs' if with_blobs else 'noblobs'}-{bounds_kind}", harness, replay=replay,
                      encodes=[mutate_mod.Mutator.run, mcmc.parallel_mcmc, mcmc.BaseMCMCRunner.run, mcmc.TPCNRunner._propose,
                               mcmc.RWMRunner._propose, mcmc.apply_boundary_conditions, mcmc.check_bounds],
                      bounds=f"one kernel iteration (n_steps=n_max_steps=1), {n} walkers, d={d}, K=1, boundary {bounds_kind}, "
                             f"at most one proposal redraw in total (random-call budget)",
                      stubs=["np.random.* -> symbolic draws", "np.nan_to_num -> identity on reals", "callbacks -> uninterpreted functions",
                             "_adapt_sigma -> no-op, _check_convergence -> True (exactly one kernel iteration; adaptation only feeds diagnostics and the number of further steps)"],
                      allow_bound="paths needing more proposal redraws than the draw budget are cut (stated bound)",
                      theory="QF_UFNRA", timeout_ms=20000, max_paths=3000)


# ------------------------------------------------------------------ Mutator.run, beta == 0 (prior draws, -inf replacement)


def make_warmup(n, d, with_blobs, declared=True):
    """declared=False: the likelihood returns (logl, blob) but blobs_dtype was left at None (have_blobs False): whatever the step stores as
    blobs must still belong to the stored rows (or nothing is stored)."""
    cb_blobs = with_blobs
    with_blobs = with_blobs and declared

    def harness(ctx: PathCtx):
        cb = Callbacks(d, blobs=cb_blobs, inf=True)
        st = StateManager(n_dim=d)
        st._current.update({"beta": 0.0, "calls": 5, "logz": 0.0, "iter": 1})
        mut = mutate_mod.Mutator(state=st, prior_transform=cb.prior_transform, log_likelihood=cb.log_likelihood, pbar=None,
                                 n_particles=n, n_dim=d, have_blobs=with_blobs)
        stub = RandomStub(Draws(ctx), max_calls=5)  # <= 3 unsupported batches in a row are followed, then one replacement draw
        proxy = NpProxy(random=stub, overrides={"isinf": isinf_model})
        with patched(mutate_mod, np=proxy):
            mut.run(None)
        c = st._current
        n_inf = sum(1 for v in c["logl"] if isinstance(v, float))
        ctx.check("no-minus-inf-stored", z3.BoolVal(n_inf == 0), detail={"stored_minus_inf": n_inf})
        if n_inf == 0:
            stored_blobs = c["blobs"] if (with_blobs or (cb_blobs and c.get("blobs") is not None)) else None
            check_rows(ctx, cb, "rows-coherent-after-warmup", c["u"], c["x"], c["logl"], stored_blobs, n, d)
        ctx.check("calls-count-likelihood-points", z3.BoolVal(c["calls"] == 5 + cb.n_like_points))
        return None

    def replay(m, label, v):
        pt, ll0, ll_point, bl_point = concrete_callbacks(d, cb_blobs)

        def ll(x):
            l, b = ll0(x)
            l = np.where(np.atleast_2d(x)[:, 0] < 2.5, -np.inf, l)  # u0 < 0.5 roughly -> zero likelihood
            return l, b
        for trial in range(100):
            st = StateManager(n_dim=d)
            st.update_current({"beta": 0.0, "calls": 5, "logz": 0.0, "iter": 1})
            mut = mutate_mod.Mutator(state=st, prior_transform=pt, log_likelihood=ll, pbar=None, n_particles=n, n_dim=d,
                                     have_blobs=with_blobs)
            s0 = np.random.get_state()
            np.random.seed(trial)
            try:
                mut.run(None)
            finally:
                np.random.set_state(s0)
            c = st.get_current()
            if np.any(np.isinf(c["logl"])):
                return {"reproduced": True, "signature": "Mutator.run:warmup:-inf-stored", "payload": {"seed": trial},
                        "what": f"warm-up with seed {trial} stored a -inf particle"}
            ok, why = rows_coherent_concrete(c["u"], c["x"], c["logl"], c["blobs"] if (with_blobs or (cb_blobs and c["blobs"] is not None)) else None, pt,
                                             lambda xr: ll_point(xr), bl_point)
            if not ok:
                return {"reproduced": True, "signature": "Mutator.run:warmup:incoherent-record" + ("" if declared else ":undeclared-blobs"), "payload": {"seed": trial},
                        "what": f"warm-up with seed {trial}: {why}"}
        return {"reproduced": False, "what": "100 seeded warm-up steps stayed coherent"}

    return Obligation(f"warmup-n{n}-d{d}-{'blobs' if with_blobs else ('undeclared-blobs' if cb_blobs else 'noblobs')}", harness, replay=replay,
                      encodes=[mutate_mod.Mutator.run],
                      bounds=f"{n} fresh prior draws, d={d}, every subset of them with -inf likelihood (symbolic predicate), all replacement index choices",
                      stubs=["np.random.rand / np.random.choice -> symbolic draws", "np.isinf -> exact on the -inf marker"],
                      theory="QF_UFLRA", allow_bound="more than 3 consecutive prior batches without a supported draw are cut")


# ------------------------------------------------------------------ Resampler.run


def make_resample(scheme, n_particles, batches, with_blobs):
    N = sum(batches)
    d = 1

    def harness(ctx: PathCtx):
        cb = Callbacks(d, blobs=with_blobs)
        st = StateManager(n_dim=d)
        rows = []
        k = 0
        for t, nt in enumerate(batches):
            u, x, logl, blobs = coherent_state(ctx, cb, nt, d, tag=f"h{t}", with_blobs=with_blobs)
            st._current.update({"u": sarr(u), "x": sarr(x), "logl": sarr(logl), "blobs": sarr(blobs) if with_blobs else None,
                                "beta": 0.5, "logz": 0.0})
            st.commit_current_to_history()
        st._current.update({"beta": 0.5})
        w = [real(ctx, f"w{i}", lo=0) for i in range(N)]
        tot = w[0]
        for v in w[1:]:
            tot = tot + v
        ctx.assume(tot.n == 1)
        stub = RandomStub(Draws(ctx), max_calls=2)
        rs = resample_mod.Resampler(st, n_particles=n_particles, resample=scheme, clusterer=None, clustering=False,
                                    have_blobs=with_blobs)
        with patched(resample_mod, np=NpProxy(random=stub)), patched(tools, np=NpProxy(random=stub)):
            rs.run(sarr(w))
        c = st._current
        check_rows(ctx, cb, "rows-coherent-after-resampling", c["u"], c["x"], c["logl"], c["blobs"] if with_blobs else None,
                   n_particles, d)
        # every resampled record is one of the history records (moved as a whole)
        hu = np.concatenate(st._history["u"])
        conds = []
        for k in range(n_particles):
            conds.append(z3.Or(*[eq(c["u"][k][0], hu[i][0]) for i in range(N)]))
        ctx.check("records-come-from-history", z3.And(*conds))
        return None

    def replay(m, label, v):
        pt, ll, ll_point, bl_point = concrete_callbacks(d, with_blobs)
        rng = np.random.RandomState(1)
        for trial in range(100):
            st = StateManager(n_dim=d)
            for nt in batches:
                u = rng.rand(nt, d)
                x = np.array([pt(r) for r in u])
                l, b = ll(x)
                st.update_current({"u": u, "x": x, "logl": l, "blobs": b, "beta": 0.5, "logz": 0.0})
                st.commit_current_to_history()
            w = rng.rand(N)
            if trial % 3 == 1:
                w[rng.randint(N)] = 0.0  # weights that underflowed to exactly zero occur in long histories
            elif trial % 3 == 2 and N > 2:
                w[rng.choice(N, size=N - 2, replace=False)] = 0.0
            w /= w.sum()
            rs = resample_mod.Resampler(st, n_particles=n_particles, resample=scheme, clusterer=None, clustering=False,
                                        have_blobs=with_blobs)
            s0 = np.random.get_state()
            np.random.seed(trial)
            try:
                rs.run(w)
            finally:
                np.random.set_state(s0)
            c = st.get_current()
            ok, why = rows_coherent_concrete(c["u"], c["x"], c["logl"], c["blobs"] if with_blobs else None, pt, ll_point, bl_point)
            if not ok:
                return {"reproduced": True, "signature": f"Resampler.run:{scheme}:incoherent-record", "payload": {"seed": trial},
                        "what": f"Resampler.run({scheme}, blobs={with_blobs}) seed {trial}: {why}"}
        return {"reproduced": False, "what": "100 seeded resampling steps stayed coherent"}

    return Obligation(f"resample-{scheme}-n{n_particles}-hist{'x'.join(map(str, batches))}-{'blobs' if with_blobs else 'noblobs'}",
                      harness, replay=replay, encodes=[resample_mod.Resampler.run, tools.systematic_resample],
                      bounds=f"history batches {batches} of coherent rows, n_particles={n_particles}, d=1, all index draws",
                      stubs=["np.random.choice / np.random.random -> symbolic draws"], theory="QF_UFLRA")


# ------------------------------------------------------------------ commit


def make_commit(n, d, with_blobs):
    def harness(ctx: PathCtx):
        cb = Callbacks(d, blobs=with_blobs)
        st = StateManager(n_dim=d)
        u0, x0, l0, b0 = coherent_state(ctx, cb, n, d, tag="a", with_blobs=with_blobs)
        st._current.update({"u": sarr(u0), "x": sarr(x0), "logl": sarr(l0), "blobs": sarr(b0) if with_blobs else None, "beta": 0.0})
        st.commit_current_to_history()
        u1, x1, l1, b1 = coherent_state(ctx, cb, n, d, tag="b", with_blobs=with_blobs)
        st.update_current({"u": sarr(u1), "x": sarr(x1), "logl": sarr(l1), "beta": 0.5})
        if with_blobs:
            st.set_current("blobs", sarr(b1))
        st.commit_current_to_history()
        for t in range(2):
            check_rows(ctx, cb, f"history-batch-{t}-coherent", st._history["u"][t], st._history["x"][t], st._history["logl"][t],
                       st._history["blobs"][t] if with_blobs else None, n, d)
        fu = st.get_history("u", flat=True)
        fx = st.get_history("x", flat=True)
        fl = st.get_history("logl", flat=True)
        fb = st.get_history("blobs", flat=True) if with_blobs else None
        check_rows(ctx, cb, "flat-history-coherent", fu, fx, fl, fb, 2 * n, d)
        return None

    return Obligation(f"commit-n{n}-d{d}-{'blobs' if with_blobs else 'noblobs'}", harness, replay=None,
                      encodes=[StateManager.commit_current_to_history, StateManager.get_history, StateManager.update_current],
                      bounds=f"two commits of {n} coherent rows, d={d}", theory="QF_UFLRA")


def obligations(tier):
    obs = []
    from vf.props.c12 import make_posterior, make_posterior_after_replacement
    if tier == "quick":
        obs += [make_mutate("rwm", 2, 1, True), make_mutate("tpcn", 1, 1, False), make_mutate("tpcn", 1, 1, True, "periodic"),
                make_mutate("rwm", 1, 1, False, "reflective"),
                make_warmup(2, 1, True), make_warmup(3, 1, False), make_warmup(2, 1, True, declared=False),
                make_resample("mult", 2, (2, 1), True), make_resample("syst", 2, (2, 1), True),
                make_commit(2, 1, True)]
        obs += [make_posterior(flags, (2, 1), 3) for flags in [(True, True, True, True), (False, True, False, True), (True, False, True, False), (False, False, True, True)]]
        obs.append(make_posterior_after_replacement((2, 1)))  # records stay whole when the history is replaced by load_state / resume
    else:
        for kernel in ("tpcn", "rwm"):
            for wb in (True, False):
                obs.append(make_mutate(kernel, 2, 1, wb))
                obs.append(make_mutate(kernel, 1, 2, wb))
            for bk in ("periodic", "reflective"):
                obs.append(make_mutate(kernel, 1, 1, True, bk))
        obs += [make_warmup(2, 1, True), make_warmup(3, 1, False), make_warmup(2, 2, True), make_warmup(3, 1, True)]
        for scheme in ("mult", "syst"):
            for wb in (True, False):
                obs.append(make_resample(scheme, 2, (2, 1), wb))
            obs.append(make_resample(scheme, 2, (2, 2, 2), True))
            obs.append(make_resample(scheme, 3, (2, 2), True))
        obs += [make_commit(2, 1, True), make_commit(2, 2, False)]
        import itertools
        obs += [make_posterior(flags, (2, 1), 3) for flags in itertools.product((False, True), repeat=4)]
    return obs
