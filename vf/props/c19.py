"""C19 (partial) - Student-t proposal fit: equivariance, bounding box, PSD scale (one ECME iteration)."""
from __future__ import annotations

import itertools
import math
import types
from fractions import Fraction

import numpy as np
import z3

import tempest.student as student_mod
from tempest.student import fit_mvstud

from vf.engine.core import PathCtx
from vf.engine.harness import Obligation
from vf.engine.real import SymReal
from vf.engine.arr import NpProxy, patched, sarr, solve_small, pinv_small, SymArray
from vf.engine.util import real, eq, le, lt, scalar
from vf.props.mcmc_common import exp_as_uf

PROPERTY_ID = "C19"
ASSUMPTIONS = [
    "claimed in part: initialisation and ONE iteration of the ECME map (the loop iterates one map, so equivariance of one step is inductive); "
    "the nu update (special.psi + optimize.bisect) is an uninterpreted function of the Mahalanobis distances with contract nu > 0 or inf",
    "existence of the bisection bracket, convergence, parameter recovery (statistical) and strict positive-definiteness for degenerate data are outside the claim",
    "the dof fallback before the kernel is decided under C14 (symbolic finite/inf dof through ModeStatistics)",
    "the finite-vs-infinite decision of the dof update is decided bit-precisely (QF_FP) for arbitrary Mahalanobis distances in [0, 1e4]: some weight (nu+d)/(nu+delta) must be able to differ from 1 (existential obligation)",
    "the scale-concrete obligation uses 4 concrete points and the scalings (1/s, s), s in [1, 1e6]; numpy.linalg.pinv is modelled with its eigenvalue cut-off for d <= 2",
]


def cov_model(m, *a, **k):
    """np.cov for rows = variables (unbiased); 0-d for a single variable, as numpy."""
    m = np.asarray(m, dtype=object)
    if m.ndim == 1:
        m = m.reshape(1, -1)
    d, n = m.shape
    mean = [sum(m[i][1:], m[i][0]) / n for i in range(d)]
    C = [[sum([(m[i][t] - mean[i]) * (m[j][t] - mean[j]) for t in range(1, n)], (m[i][0] - mean[i]) * (m[j][0] - mean[j])) / (n - 1)
          for j in range(d)] for i in range(d)]
    if d == 1:
        out = np.empty((), dtype=object)
        out[()] = C[0][0]
        return out.view(SymArray)
    return sarr(C)


class AbstractF:
    """value of the score function of the nu update: only its sign at the probe points is used by the code (nu = inf / finite root /
    lower end of the bracket); every arithmetic operation is absorbed and the comparisons with 0 are symbolic Booleans owned by the
    harness: `>= 0` / `< 0` (asked at the upper probe) share one Boolean, `> 0` / `<= 0` (asked at the lower probe) another."""

    def __init__(self, flag, flag_lo=None):
        self.flag = flag
        self.flag_lo = flag_lo if flag_lo is not None else flag

    def _same(self, *a):
        return self

    __add__ = __radd__ = __sub__ = __rsub__ = __mul__ = __rmul__ = __truediv__ = __rtruediv__ = __neg__ = _same

    def __ge__(self, o):
        return self.flag

    def __lt__(self, o):
        return ~self.flag

    def __gt__(self, o):
        return self.flag_lo

    def __le__(self, o):
        return ~self.flag_lo


def run_fit(ctx, data, tag, max_iter=1, nu_script=None):
    """real fit_mvstud(max_iter=1) on a symbolic (n, d) data array.  The nu update is a nondeterministic function of the
    Mahalanobis distances: a run whose distances are *proved* equal to those of an earlier run gets the same nu / inf flag."""
    n, d = len(data), len(data[0])
    info = {}
    runs = ctx.notes.setdefault("_c19_runs", [])

    script_pos = {"k": 0}

    def nu_for(delta):
        if nu_script is not None:
            # scripted dof updates (finite, inside the bracket): the arithmetic of the run then depends on the data only
            from vf.engine.core import SymBool
            k = min(script_pos["k"], len(nu_script) - 1)
            script_pos["k"] += 1
            return float(nu_script[k]), SymBool(z3.BoolVal(False)), SymBool(z3.BoolVal(True))
        for (dl, nu_v, flag, flag_lo) in runs:
            same = z3.And(*[eq(p, q) for p, q in zip(dl, delta)])
            if ctx._query(z3.Not(same), timeout_ms=3000)[0] == "unsat":
                return nu_v, flag, flag_lo
        k = len(runs)
        nu_z = ctx.register(f"nu_{k}", z3.Real(f"nu_{k}"))
        ctx.assume(nu_z > 0)
        from vf.engine.util import boolean
        flag = boolean(ctx, f"nu_is_inf_{k}")
        flag_lo = boolean(ctx, f"score_positive_at_lower_probe_{k}")
        runs.append((delta, SymReal(nu_z, sign="+"), flag, flag_lo))
        return runs[-1][1], flag, flag_lo

    def solve(A, B):
        X = solve_small(A, B)
        B_ = np.asarray(B, dtype=object)
        delta = [sum([B_[i][t] * X[i][t] for i in range(1, B_.shape[0])], B_[0][t] * X[0][t]) for t in range(B_.shape[1])]
        info["delta"] = delta
        info["Sigma0"] = np.asarray(A, dtype=object)
        info["nu"], info["flag"], info["flag_lo"] = nu_for(delta)
        return X

    def bisect(f, a, b, *aa, **kk):
        return info["nu"]
    opt = types.SimpleNamespace(bisect=bisect)
    spec = types.SimpleNamespace(psi=lambda v: 0.0)
    def note_delta(A, X, B):
        B_ = np.asarray(B, dtype=object)
        delta = [sum([B_[i][t] * X[i][t] for i in range(1, B_.shape[0])], B_[0][t] * X[0][t]) for t in range(B_.shape[1])]
        info["delta"] = delta
        info["Sigma0"] = np.asarray(A, dtype=object)
        info["nu"], info["flag"], info["flag_lo"] = nu_for(delta)

    class Pinv:
        """result of linalg.pinv: remembers the matrix so that `pinv(S) @ diffs` can register the Mahalanobis distances"""
        def __init__(self, A, **kw):
            self.A, self.P = A, pinv_small(A, **kw)

        def __matmul__(self, B):
            X = self.P @ np.asarray(B, dtype=object)
            note_delta(self.A, X, B)
            return X
    la = types.SimpleNamespace(solve=solve, pinv=lambda A, *a, **kw: Pinv(A, **kw), LinAlgError=np.linalg.LinAlgError)
    proxy = NpProxy(overrides={"cov": cov_model, "linalg": la, "log": lambda v: AbstractF(info["flag"], info.get("flag_lo"))})
    from vf.engine.core import DomainError
    try:
        with patched(student_mod, np=proxy, optimize=opt, special=spec):
            import io, contextlib
            with contextlib.redirect_stdout(io.StringIO()):
                mu, Sigma, nu = fit_mvstud(sarr(data), tolerance=1e-6, max_iter=max_iter)
        info["n_dof_updates"] = script_pos["k"]
    except np.linalg.LinAlgError:
        raise DomainError("degenerate data: singular initial scale matrix (outside the claim)")
    return mu, Sigma, nu, info


def make_equivariance(n, d, kind):
    """kind: 'affine' (per-coordinate scale a != 0 and shift b) or 'permute' (coordinate permutation, d == 2)."""

    def harness(ctx: PathCtx):
        if kind == "scale-concrete":
            # concrete data, one symbolic per-coordinate scale over the whole range of the property: conditioning questions inside the
            # code (pseudo-inverse cut-offs, regularisation thresholds) then have a single real unknown
            pts = [(0, 0), (1, 0), (0, 1), (3, 2), (1, 4), (2, 2)][:n]
            x = [[SymReal.const(Fraction(c)) for c in p_[:d]] for p_ in pts]
            sc = real(ctx, "s", lo=1, hi=10 ** 6)
            a = [1 / sc] * (d - 1) + [sc]  # the two ends of the range [1e-6, 1e6] on different coordinates
            b = [SymReal.const(0)] * d
            y = [[a[j] * x[i][j] for j in range(d)] for i in range(n)]
            perm = list(range(d))
        elif kind == "scale-common":
            # every coordinate scaled by the same factor, two ECME iterations with scripted dof updates: anything the loop compares
            # with an absolute constant (a stopping test, a floor) shows as a different number of iterations or a different result
            pts = [(0, 0), (1, 0), (0, 1), (3, 2), (1, 4), (2, 2)][:n]
            x = [[SymReal.const(Fraction(c)) for c in p_[:d]] for p_ in pts]
            sc = real(ctx, "s", lo=Fraction(1, 10 ** 6), hi=10 ** 6)
            a = [sc] * d
            b = [SymReal.const(0)] * d
            y = [[a[j] * x[i][j] for j in range(d)] for i in range(n)]
            perm = list(range(d))
        else:
            x = [[real(ctx, f"x{i}_{j}") for j in range(d)] for i in range(n)]
        if kind in ("scale-concrete", "scale-common"):
            pass
        elif kind == "affine":
            a = [real(ctx, f"a{j}") for j in range(d)]
            b = [real(ctx, f"b{j}") for j in range(d)]
            for v in a:
                ctx.assume(v.n != 0)
            y = [[a[j] * x[i][j] + b[j] for j in range(d)] for i in range(n)]
            perm = list(range(d))
        else:
            a = [SymReal.const(1)] * d
            b = [SymReal.const(0)] * d
            perm = [1, 0]
            y = [[x[i][perm[j]] for j in range(d)] for i in range(n)]
        kw = dict(max_iter=2, nu_script=(3.0, 2.5, 2.25)) if kind == "scale-common" else {}
        mu1, S1, nu1, i1 = run_fit(ctx, x, "x", **kw)
        mu2, S2, nu2, i2 = run_fit(ctx, y, "y", **kw)
        if kind == "scale-common":
            ctx.check("same-number-of-iterations", z3.BoolVal(i1["n_dof_updates"] == i2["n_dof_updates"]),
                      detail={"unscaled": i1["n_dof_updates"], "scaled": i2["n_dof_updates"]})
        inf1 = isinstance(nu1, float) and math.isinf(nu1)
        inf2 = isinstance(nu2, float) and math.isinf(nu2)
        ctx.check("same-branch(nu-finite-or-inf)", z3.BoolVal(inf1 == inf2))
        ctx.check("initial-scale-matrix-equivariant", z3.And(*[eq(i2["Sigma0"][j][k], a[j] * a[k] * i1["Sigma0"][perm[j]][perm[k]])
                                                                for j in range(d) for k in range(d)]))
        ctx.check("mahalanobis-distances-invariant", z3.And(*[eq(p, q) for p, q in zip(i1["delta"], i2["delta"])]))
        if inf1 == inf2:
            ctx.check("location-equivariant", z3.And(*[eq(mu2[j], a[j] * mu1[perm[j]] + b[j]) for j in range(d)]))
            ctx.check("scale-matrix-equivariant", z3.And(*[eq(S2[j][k], a[j] * a[k] * S1[perm[j]][perm[k]]) for j in range(d) for k in range(d)]))
            if not inf1:
                ctx.check("dof-invariant", eq(nu1, nu2))
        return None

    _replay_memo = {}

    def replay(m, label, v):
        rng = np.random.RandomState(0)
        x = rng.standard_t(2, size=(200, d)) * 0.1 + 0.5  # heavy tails: the nu update stays finite
        if kind in ("affine", "scale-concrete", "scale-common"):
            if kind == "scale-common":
                m = dict(m)
                m.update({f"a{j}": float(m.get("s", 2.0)) for j in range(d)})
                m.update({f"b{j}": 0.0 for j in range(d)})
            if kind == "scale-concrete":
                m = dict(m)
                m.update({f"a{j}": 1.0 / float(m.get("s", 2.0)) for j in range(d - 1)})
                m[f"a{d - 1}"] = float(m.get("s", 2.0))
                m.update({f"b{j}": 0.0 for j in range(d)})
            a = np.array([float(m.get(f"a{j}", 2.0)) for j in range(d)])
            a = np.where(np.abs(a) < 1e-3, 2.0, a)
            b = np.array([float(m.get(f"b{j}", 0.3)) for j in range(d)])
            perm = list(range(d))
            # the property quantifies over scalings in [1e-6, 1e6]: also try the ends of that range
            scalings = [np.full(d, sc) for sc in (1e-6, 1e-4, 1e4, 1e6)]
            if d > 1:
                scalings += [np.array([1e-3, 1e3][:d]), np.array([1e4, 1.0][:d]), np.array([1e-6, 1e6][:d]), np.array([1.0, 1e-6][:d]), np.array([1e6, 1.0][:d])]  # per-coordinate (anisotropic) scalings
            import io, contextlib
            # heavy tails (the dof update stays finite and the EM loop runs) and light tails (the fit returns its initial scale matrix
            # with nu = inf); after one iteration and at convergence. This part does not depend on the solver's model: computed once.
            datasets = [("t(2)", x), ("uniform", np.random.RandomState(1).uniform(0.2, 0.8, size=(200, d)))]
            if "scalings" in _replay_memo:
                if _replay_memo["scalings"] is not None:
                    return _replay_memo["scalings"]
                datasets = []
            _replay_memo["scalings"] = None
            for dname, xx in datasets:
                for aa in scalings:
                    sc = aa.tolist()
                    for mi in (1, 100):
                        with contextlib.redirect_stdout(io.StringIO()):
                            p1, q1, r1 = fit_mvstud(xx, max_iter=mi)
                            p2, q2, r2 = fit_mvstud(xx * aa, max_iter=mi)
                        if not (np.allclose(p2, aa * p1, rtol=1e-6, atol=0) and np.allclose(q2, np.outer(aa, aa) * q1, rtol=1e-6, atol=0)):
                            _replay_memo["scalings"] = {"reproduced": True, "signature": f"fit_mvstud:not-equivariant:{kind}", "payload": {"scale": sc, "data": dname, "max_iter": mi},
                                                        "what": f"fit_mvstud(max_iter={mi}) of 200 {dname} points scaled per coordinate by {sc}: scale matrix {q2.tolist()} is not diag(a) Sigma diag(a) of the unscaled one {q1.tolist()}"}
                            return _replay_memo["scalings"]
            y = x * a + b
        else:
            a, b, perm = np.ones(d), np.zeros(d), [1, 0]
            y = x[:, perm]
        m1, S1, n1 = fit_mvstud(x)
        m2, S2, n2 = fit_mvstud(y)
        ok1 = None
        for iters in (1, 2, 3):  # the relation must hold after every iteration, not only at the fixed point
            try:
                import io, contextlib
                with contextlib.redirect_stdout(io.StringIO()):
                    p1, q1, r1 = fit_mvstud(x, max_iter=iters)
                    p2, q2, r2 = fit_mvstud(y, max_iter=iters)
                good_loc = np.allclose(p2, a * p1[perm] + b, rtol=1e-6, atol=1e-9)
                good_scale = np.allclose(q2, np.outer(a, a) * q1[np.ix_(perm, perm)], rtol=1e-5, atol=0)
                if not (good_loc and good_scale):
                    ok1 = (iters, p1.tolist(), p2.tolist(), q1.tolist(), q2.tolist(), good_loc)
                    break
            except Exception:
                pass
        if ok1 is not None:
            return {"reproduced": True, "signature": f"fit_mvstud:not-equivariant:{kind}", "payload": {"a": a.tolist(), "b": b.tolist(), "iterations": ok1[0]},
                    "what": f"fit_mvstud(max_iter={ok1[0]}) on 200 t-distributed points vs their image under x -> {a.tolist()}*x + {b.tolist()} (perm {perm}): "
                            + (f"location {ok1[1]} -> {ok1[2]} is not the image of the location" if not ok1[5] else
                               f"scale matrix {ok1[3]} -> {ok1[4]} is not diag(a) Sigma diag(a) (permuted)")}
        ok = np.allclose(m2, a * m1[perm] + b, rtol=1e-5, atol=1e-8) and np.allclose(S2, np.outer(a, a) * S1[np.ix_(perm, perm)], rtol=1e-4) and \
            (math.isclose(n1, n2, rel_tol=1e-3) or (math.isinf(n1) and math.isinf(n2)))
        return {"reproduced": not ok, "signature": f"fit_mvstud:not-equivariant:{kind}", "payload": {"a": a.tolist(), "b": b.tolist(), "nu": [n1, n2]},
                "what": f"fit_mvstud on 200 t-distributed points vs their image under x -> {a.tolist()}*x + {b.tolist()} (perm {perm}): "
                        f"location {m1.tolist()} -> {m2.tolist()}, dof {n1} vs {n2}"}

    return Obligation(f"equivariance-{kind}-n{n}-d{d}", harness, replay=replay, encodes=[fit_mvstud],
                      bounds=f"n={n} symbolic points, d={d}, initialisation + one ECME iteration (max_iter=1), symbolic per-coordinate scale/shift" if kind == "affine"
                      else (f"n={n} concrete points, d={d}, scales (1/s, .., s) with symbolic s in [1, 1e6], initialisation + one ECME iteration" if kind == "scale-concrete"
                            else f"n={n} concrete points, d={d}, ONE common scale s in [1e-6, 1e6] on every coordinate, two ECME iterations with scripted dof updates (3.0, 2.5)" if kind == "scale-common"
                            else f"n={n} symbolic points, d=2, coordinate swap"),
                      stubs=["nu update (optimize.bisect/special.psi/np.log score) -> nondeterministic nu > 0 or inf, identical for runs whose Mahalanobis distances are proved equal",
                             "np.cov -> unbiased covariance model", "np.linalg.solve -> closed form (d<=2)", "np.linalg.pinv -> eigenvalue cut-off model (d<=2)"],
                      theory="QF_NRA", timeout_ms=30000, max_paths=2000,
                      allow_domain="degenerate data (singular initial scale matrix) is outside the claim")


def make_init_equivariance(n, d):
    """initial location / scale matrix only (max_iter=0): the part every real fit returns when the nu update says inf."""

    def init_fit(ctx, data):
        proxy = NpProxy(overrides={"cov": cov_model})
        with patched(student_mod, np=proxy):
            return fit_mvstud(sarr(data), tolerance=1e-6, max_iter=0)

    def harness(ctx: PathCtx):
        x = [[real(ctx, f"x{i}_{j}") for j in range(d)] for i in range(n)]
        a = [real(ctx, f"a{j}") for j in range(d)]
        b = [real(ctx, f"b{j}") for j in range(d)]
        for v in a:
            ctx.assume(v.n != 0)
        y = [[a[j] * x[i][j] + b[j] for j in range(d)] for i in range(n)]
        m1, S1, _ = init_fit(ctx, x)
        m2, S2, _ = init_fit(ctx, y)
        ctx.check("location-equivariant", z3.And(*[eq(m2[j], a[j] * m1[j] + b[j]) for j in range(d)]))
        ctx.check("initial-scale-matrix-equivariant", z3.And(*[eq(S2[j][k], a[j] * a[k] * S1[j][k]) for j in range(d) for k in range(d)]))
        if d == 1:
            ctx.check("scale-positive-semidefinite", le(0, S1[0][0]))
        return None

    ob = make_equivariance(n, d, "affine")
    return Obligation(f"init-equivariance-n{n}-d{d}", harness, replay=ob.replay, encodes=[fit_mvstud],
                      bounds=f"n={n} symbolic points, d={d}, initialisation only (max_iter=0), symbolic per-coordinate scale/shift",
                      stubs=["np.cov -> unbiased covariance model"], theory="QF_NRA", timeout_ms=20000, max_paths=2000)


def make_wellposed(n, d):
    def harness(ctx: PathCtx):
        x = [[real(ctx, f"x{i}_{j}") for j in range(d)] for i in range(n)]
        # non-degenerate data: positive variance in every coordinate (d=1) / distinct points
        mu, S, nu, info = run_fit(ctx, x, "x")
        conds = []
        for j in range(d):
            col = [x[i][j] for i in range(n)]
            lo_ok = z3.Or(*[z3.And(*[le(col[p], col[q]) for q in range(n)], le(col[p], mu[j])) for p in range(n)])
            hi_ok = z3.Or(*[z3.And(*[le(col[q], col[p]) for q in range(n)], le(mu[j], col[p])) for p in range(n)])
            conds += [lo_ok, hi_ok]
        ctx.check("location-inside-bounding-box", z3.And(*conds))
        if d == 1:
            ctx.check("scale-positive-semidefinite", le(0, S[0][0]))
        else:
            ctx.check("scale-symmetric-positive-semidefinite", z3.And(eq(S[0][1], S[1][0]), le(0, S[0][0]), le(0, S[1][1]),
                                                                     le(0, S[0][0] * S[1][1] - S[0][1] * S[1][0])))
        if not (isinstance(nu, float)):
            ctx.check("dof-positive", lt(0, nu))
        return None

    def replay(m, label, v):
        x = np.array([[float(m[f"x{i}_{j}"]) for j in range(d)] for i in range(n)])
        try:
            mu, S, nu = fit_mvstud(x, max_iter=1)
        except Exception as e:
            return {"reproduced": False, "what": f"fit raised {e}"}
        bad = np.any(mu < x.min(axis=0) - 1e-9) or np.any(mu > x.max(axis=0) + 1e-9) or np.min(np.linalg.eigvalsh((S + S.T) / 2)) < -1e-9
        return {"reproduced": bool(bad), "signature": f"fit_mvstud:{label}", "payload": {"x": x.tolist(), "mu": np.asarray(mu).tolist()},
                "what": f"fit_mvstud({x.tolist()}, max_iter=1) -> mu {np.asarray(mu).tolist()}, Sigma {np.asarray(S).tolist()} violates {label}"}

    return Obligation(f"wellposed-n{n}-d{d}", harness, replay=replay, encodes=[fit_mvstud],
                      bounds=f"n={n} symbolic points, d={d}, initialisation + one ECME iteration", theory="QF_UFNRA", timeout_ms=30000,
                      stubs=["optimize.bisect -> uninterpreted NU > 0", "np.cov -> model", "np.linalg.solve -> closed form"],
                      allow_domain="degenerate data (singular initial scale matrix) is outside the claim")


def make_dof_decision(n, d):
    """The nu update decides between a finite root and nu = inf from the sign of the score at a large probe value. The score is a
    function of the weights w_i = (nu + d) / (nu + delta_i); if, in double precision, every such weight equals exactly 1 for every
    data set, the decision cannot depend on the data (and the fit can never estimate the degrees of freedom). Decided bit-precisely
    (QF_FP) on the real code: the weights handed to the score at its first evaluation, for arbitrary Mahalanobis distances in
    [0, 1e4], must be able to differ from 1."""
    from vf.engine.fp import SymFP, FP, fpval

    class Stop(Exception):
        pass

    def harness(ctx: PathCtx):
        x = (np.arange(n * d, dtype=float).reshape(n, d) * 0.37 + np.arange(n).reshape(n, 1) ** 2 * 0.11) % 1.0
        deltas = []
        for i in range(n):
            t = ctx.register(f"delta{i}", z3.FP(f"delta{i}", FP))
            ctx.assume(z3.And(z3.fpGEQ(t, fpval(0.0)), z3.fpLEQ(t, fpval(1e4))))
            deltas.append(SymFP(t))
        seen = {}

        def sum_model(a, axis=None, **kw):
            if axis == 0 and "delta" not in seen:
                seen["delta"] = True
                return sarr(deltas)  # the Mahalanobis distances: arbitrary doubles in [0, 1e4]
            return np.sum(a, axis=axis, **kw) if axis is not None else np.sum(a, **kw)

        def log_model(v):
            if isinstance(v, np.ndarray) and v.dtype == object and "w" not in seen:
                seen["w"] = [e for e in v.reshape(-1)]
                raise Stop()
            return np.log(v)
        spec = types.SimpleNamespace(psi=lambda v: 0.0)
        proxy = NpProxy(overrides={"sum": sum_model, "log": log_model})
        try:
            with patched(student_mod, np=proxy, special=spec):
                fit_mvstud(x.copy(), tolerance=1e-6, max_iter=1)
        except Stop:
            pass
        if "w" not in seen:
            ctx.fail("score-is-evaluated-on-the-weights", "the dof update never evaluated log(w) on the weights")
            return None
        ctx.ok("score-is-evaluated-on-the-weights")
        w = seen["w"]
        ctx.check("one-weight-per-point", z3.BoolVal(len(w) == n))
        label = "dof-decision-can-depend-on-the-data(some weight != 1 for some distances in [0,1e4])"
        from vf.engine.core import CheckResult
        one = fpval(1.0)
        verdicts = []
        for i, e in enumerate(w):
            wz = SymFP.lift(e).z
            verdict = "unknown"
            # (a) witness: substitute concrete distances and evaluate the real expression in binary64
            for val in (0.0, 0.5, 3.0, 100.0, 1e4):
                ev = z3.simplify(z3.substitute(wz, *[(dl.z, fpval(val)) for dl in deltas]))
                if z3.is_fp_value(ev) and z3.is_false(z3.simplify(z3.fpEQ(ev, one))):
                    verdict = "differs"
                    break
            # (b) proof that the weight is the constant 1: numerator and denominator are the same double for every distance
            if verdict == "unknown" and z3.is_app(wz) and wz.decl().kind() == z3.Z3_OP_FPA_DIV:
                rm, a, b = wz.children()
                if ctx._query(z3.Not(z3.fpEQ(a, b)))[0] == "unsat":
                    q = z3.simplify(z3.fpDiv(rm, a, a))
                    if z3.is_true(z3.simplify(z3.fpEQ(q, one))):
                        verdict = "always-one"
            if verdict == "unknown":
                r_, _ = ctx._query(z3.Not(z3.fpEQ(wz, one)))
                verdict = {"sat": "differs", "unsat": "always-one"}.get(r_, "unknown")
            verdicts.append(verdict)
        if any(v_ == "differs" for v_ in verdicts):
            ctx.results.append(CheckResult(label, "holds", None, verdicts, ctx.path_id))
        elif all(v_ == "always-one" for v_ in verdicts):
            ctx.results.append(CheckResult(label, "violated", ctx.witness() or {}, verdicts, ctx.path_id))
        else:
            ctx.results.append(CheckResult(label, "unknown", None, verdicts, ctx.path_id))
        return None

    def replay(m, label, v):
        """real fit on large heavy-tailed samples: the degrees of freedom must be finite at least once"""
        rng = np.random.RandomState(0)
        rows = []
        for nu_true in (1.0, 2.0, 5.0):
            for dd in (1, 2, 4):
                g = rng.randn(3000, dd) / np.sqrt(rng.chisquare(nu_true, size=(3000, 1)) / nu_true)
                import io, contextlib
                with contextlib.redirect_stdout(io.StringIO()):
                    _, _, nu_hat = fit_mvstud(g * 0.3 + 0.5)
                rows.append((nu_true, dd, float(nu_hat)))
        never = all(math.isinf(r[2]) for r in rows)
        return {"reproduced": bool(never), "signature": "fit_mvstud:dof-never-estimated", "payload": {"(true nu, d, fitted nu)": rows},
                "what": "fit_mvstud on 3000 multivariate-t samples with nu in {1,2,5}, d in {1,2,4}: fitted nu = " + str([r[2] for r in rows]) +
                        " - the score is probed where every weight (nu+d)/(nu+delta) rounds to exactly 1, so it is 0.0 for any data and nu = inf is always returned"}

    return Obligation(f"dof-decision-n{n}-d{d}", harness, replay=replay, encodes=[fit_mvstud],
                      bounds=f"n={n} points, d={d}; Mahalanobis distances arbitrary doubles in [0, 1e4]; first evaluation of the score (the finite-vs-infinite decision)",
                      stubs=["np.sum(.., 0) of the first call -> symbolic distances (arbitrary doubles in [0,1e4])", "special.psi -> constant (not used by the obligation)"],
                      theory="QF_FP", timeout_ms=120000)


def make_fallback():
    """ModeStatistics.from_particles / from_global: a non-finite dof from the fit is replaced by the *configured* fallback."""
    import tempest.modes as modes_mod
    from tempest.modes import ModeStatistics
    from vf.props.c14 import FitDouble, choice_cover
    from vf.engine.util import integer

    def harness(ctx: PathCtx):
        n = 4
        u = (np.arange(1, n + 1, dtype=float) / (n + 1)).reshape(n, 1)
        w = np.full(n, 1.0 / n)
        # the fallback may lie below or above the fitted value: a FINITE fitted dof (5.0) is kept either way
        fb = 123.0 if integer(ctx, "fallback_above_fit", lo=0, hi=1).resolve(0, 1) == 1 else 2.5
        K = integer(ctx, "K", lo=1, hi=2).resolve(1, 2)
        labels = np.array([0, 0, 0, 0] if K == 1 else [0, 0, 1, 1])
        fitd = FitDouble(ctx)
        rnd = type("R", (), {"choice": staticmethod(choice_cover)})()
        with patched(modes_mod, fit_mvstud=fitd, np=NpProxy(random=rnd)):
            ms1 = ModeStatistics.from_particles(u, w, labels, dof_fallback=fb)
        fitg = FitDouble(ctx)
        with patched(modes_mod, fit_mvstud=fitg, np=NpProxy(random=rnd)):
            ms2 = ModeStatistics.from_global(u, w, dof_fallback=fb)
        want1 = [5.0 if math.isfinite(float(c[-1])) else fb for c in fitd.returned] if hasattr(fitd, "returned") else None
        ok1 = all(float(v) in (5.0, fb) for v in ms1.degrees_of_freedom) and (want1 is None or [float(v) for v in ms1.degrees_of_freedom] == want1)
        want2 = [5.0 if math.isfinite(float(c[-1])) else fb for c in fitg.returned] if hasattr(fitg, "returned") else None
        ok2 = all(float(v) in (5.0, fb) for v in ms2.degrees_of_freedom) and (want2 is None or [float(v) for v in ms2.degrees_of_freedom] == want2)
        ctx.check("non-finite-dof-replaced-by-the-configured-fallback(from_particles)", z3.BoolVal(bool(ok1)), detail=[float(v) for v in ms1.degrees_of_freedom])
        ctx.check("non-finite-dof-replaced-by-the-configured-fallback(from_global)", z3.BoolVal(bool(ok2)), detail=[float(v) for v in ms2.degrees_of_freedom])
        return None

    def replay(m, label, v):
        import tempest.modes as modes_mod
        from tempest.modes import ModeStatistics
        n = 8
        u = (np.arange(1, n + 1, dtype=float) / (n + 1)).reshape(n, 1)
        w = np.full(n, 1.0 / n)
        bad = []
        for K in (1, 2):
            labels = np.zeros(n, dtype=int) if K == 1 else np.array([0] * 4 + [1] * 4)
            for fitted, fbk, want in ((np.inf, 2.5, 2.5), (5.0, 2.5, 5.0), (5.0, 123.0, 5.0), (np.inf, 123.0, 123.0)):
                with patched(modes_mod, fit_mvstud=lambda data, *a, **k: (np.mean(data, axis=0), np.eye(1) * 0.01, fitted)):
                    saved = np.random.get_state()
                    np.random.seed(0)
                    ms = ModeStatistics.from_particles(u, w, labels, dof_fallback=fbk)
                    msg = ModeStatistics.from_global(u, w, dof_fallback=fbk)
                    np.random.set_state(saved)
                if not (np.allclose(ms.degrees_of_freedom, want) and np.allclose(msg.degrees_of_freedom, want)):
                    bad.append({"K": K, "fitted": fitted, "fallback": fbk, "from_particles": ms.degrees_of_freedom.tolist(), "from_global": msg.degrees_of_freedom.tolist()})
        return {"reproduced": bool(bad), "signature": "ModeStatistics:dof-fallback-contract", "payload": {"cases": bad},
                "what": f"ModeStatistics.from_particles/from_global: fitted dof vs configured fallback (finite fits are kept, non-finite ones replaced): {bad[:2]}"}

    return Obligation("dof-fallback", harness, replay=replay, encodes=[ModeStatistics.from_particles, ModeStatistics.from_global],
                      bounds="4 points, K in {1,2} clusters, fit returns a symbolic finite-or-inf dof (5.0 / inf), configured fallback 123.0 or 2.5 (above / below the finite fit)",
                      stubs=["fit_mvstud -> contract double", "np.random.choice -> covering representative"], theory="QF_LIA")


def obligations(tier):
    obs = [make_fallback(), make_dof_decision(4, 1), make_dof_decision(4, 2), make_equivariance(4, 2, "scale-concrete"), make_equivariance(4, 2, "scale-common"), make_init_equivariance(3, 1), make_init_equivariance(2, 2), make_equivariance(3, 1, "affine"), make_wellposed(3, 1), make_equivariance(2, 2, "permute"), make_equivariance(2, 2, "affine")]
    if tier == "thorough":
        # (n=4 one-iteration obligations - affine d=1, permutation d=2, well-posedness d=1 - exhaust the 2400 s budget or end in nlsat
        #  `unknown`: not scheduled; the initialisation obligations below cover n=4 / n=3,d=2)
        obs += [make_init_equivariance(4, 1), make_init_equivariance(3, 2), make_wellposed(2, 2)]
    return obs
