"""C16 - boundary maps fold every finite double into [0,1] correctly (bit-precise QF_FP)."""
from __future__ import annotations

import itertools
import math
import struct

from fractions import Fraction

import numpy as np
import z3

import tempest.mcmc as mcmc

from vf.engine.core import PathCtx, SymBool
from vf.engine.harness import Obligation
from vf.engine.arr import NpProxy, SymArray, patched, sarr
from vf.engine.fp import FP, RNE, RTN, RTZ, SymFP, fpval, sym_where

PROPERTY_ID = "C16"
ASSUMPTIONS = [
    "IEEE-754 binary64, round-to-nearest-even; numpy float remainder = fmod + sign fix-up (npy_divmod)",
    "x86-64 cast semantics for out-of-range float->int64 (INT64_MIN), validated against real numpy on every model",
    "inputs are finite doubles (NaN/inf excluded: the property quantifies over finite vectors)",
]

ZERO, ONE = fpval(0.0), fpval(1.0)


def in_unit(t):
    return z3.And(z3.fpGEQ(t, ZERO), z3.fpLEQ(t, ONE))


def fpvar(ctx, name, finite=True, band=None):
    x = ctx.register(name, z3.FP(name, FP))
    if finite:
        ctx.assume(z3.Not(z3.Or(z3.fpIsNaN(x), z3.fpIsInf(x))))
    if band is not None:
        ctx.assume(band(x))
    return SymFP(x)


class _symcmp:
    def __enter__(self):
        self.old = SymArray.symbolic_compare
        SymArray.symbolic_compare = True

    def __exit__(self, *a):
        SymArray.symbolic_compare = self.old


def run_map(u, periodic, reflective):
    with patched(mcmc, np=NpProxy(overrides={"where": sym_where})), _symcmp():
        out = mcmc.apply_boundary_conditions(u, periodic, reflective)
    # the code may substitute plain constants for some coordinates (e.g. np.where(cond, 0.0, x)): lift them so that every output is an FP term
    flat = np.asarray(out, dtype=object)
    lifted = np.empty(flat.shape, dtype=object)
    for idx in np.ndindex(flat.shape):
        lifted[idx] = SymFP.lift(flat[idx])
    return lifted.view(type(sarr([0])))


def bits_of(f: float) -> int:
    return struct.unpack("<Q", struct.pack("<d", float(f)))[0]


def same_double(a: float, b: float) -> bool:
    return bits_of(a) == bits_of(b) or (a == 0.0 and b == 0.0 and False)


# ---- independent oracles -------------------------------------------------------------


def oracle_periodic(x):
    """x - floor(x), one rounding (shares nothing with the fmod route of the code)."""
    return z3.fpSub(RNE, x, z3.fpRoundToIntegral(RTN, x))


def oracle_triangle(x):
    """|x - 2*rint(x/2)| with halving/doubling on the exponent field (multiplier free)."""
    bits = z3.fpToIEEEBV(x)
    half = z3.fpBVToFP(bits - z3.BitVecVal(1 << 52, 64), FP)  # valid for |x| >= 1 (exponent field >= 1023)
    r = z3.fpRoundToIntegral(RNE, half)
    dbl = z3.If(z3.fpIsZero(r), ZERO, z3.fpBVToFP(z3.fpToIEEEBV(r) + z3.BitVecVal(1 << 52, 64), FP))
    big = z3.fpGEQ(z3.fpAbs(x), ONE)
    e = z3.If(big, dbl, ZERO)  # |x| < 1: rint(x/2) == 0
    return z3.fpAbs(z3.fpSub(RNE, x, e))


def py_triangle(x: float) -> float:
    from fractions import Fraction
    fx = Fraction(x)
    k = round(fx / 2)  # round-half-even on exact rationals
    return float(abs(fx - 2 * k))


# ---- obligations -----------------------------------------------------------------------


def _replay_scalar(kind, label_pred):
    def replay(model, label, v):
        x = float(model["x"])
        u = np.array([x])
        per = np.array([0]) if kind == "periodic" else None
        ref = np.array([0]) if kind == "reflective" else None
        r1 = mcmc.apply_boundary_conditions(u, per, ref)
        r2 = mcmc.apply_boundary_conditions(r1, per, ref)
        bad, why = label_pred(label, x, float(r1[0]), float(r2[0]))
        return {"reproduced": bool(bad), "signature": f"{kind}:{label}" + (":|x|>=2^63" if abs(x) >= 2.0 ** 63 else ""),
                "payload": {"x": x, "x_hex": x.hex(), "result": float(r1[0]), "twice": float(r2[0])},
                "what": f"apply_boundary_conditions([{x!r}], {kind}=[0]) = {float(r1[0])!r}: {why}"}
    return replay


def _pred(label, x, r, r2):
    if label == "in-unit-interval":
        return (not (0.0 <= r <= 1.0)), "result outside [0,1]"
    if label == "periodic-value":
        exp = x - math.floor(x)
        return (r != exp), f"expected x mod 1 = {exp!r}"
    if label == "idempotent":
        ok = (r2 == r) or (r == 1.0 and r2 == 0.0)
        return (not ok), f"second application gives {r2!r}"
    if label == "triangle-value":
        t = py_triangle(x)
        return (abs(r - t) > 2.0 ** -53), f"triangle wave value is {t!r}"
    return False, "?"


def _validate_scalar(kind):
    def validate(w, ret):
        x = float(w["x"])
        per = np.array([0]) if kind == "periodic" else None
        ref = np.array([0]) if kind == "reflective" else None
        r = float(mcmc.apply_boundary_conditions(np.array([x]), per, ref)[0])
        sym = w.get("obs:r")
        if sym is None:
            return None, ""
        if bits_of(r) == bits_of(float(sym)):
            return True, ""
        return False, f"shim {float(sym)!r} != numpy {r!r} at x={x!r}"
    return validate


def make_scalar(kind, clause, band=None, band_name="all finite doubles", timeout_ms=240000):
    """kind in periodic/reflective; clause in range|value|idempotent|triangle."""

    def harness(ctx: PathCtx):
        x = fpvar(ctx, "x", band=band)
        per = np.array([0]) if kind == "periodic" else None
        ref = np.array([0]) if kind == "reflective" else None
        out = run_map(sarr([x]), per, ref)
        r = out[0]
        ctx.observe("r", r.z)
        if clause == "range":
            ctx.check("in-unit-interval", in_unit(r.z))
        elif clause == "value":
            ctx.check("periodic-value", z3.fpEQ(r.z, oracle_periodic(x.z)))
        elif clause == "idempotent":
            r2 = run_map(sarr([r]), per, ref)[0]
            ok = z3.fpEQ(r2.z, r.z)
            if kind == "periodic":
                ok = z3.Or(ok, z3.And(z3.fpEQ(r.z, ONE), z3.fpEQ(r2.z, ZERO)))
            ctx.check("idempotent", ok)
        elif clause == "triangle":
            t = oracle_triangle(x.z)
            ctx.check("triangle-value", z3.fpLEQ(z3.fpAbs(z3.fpSub(RNE, r.z, t)), fpval(2.0 ** -53)))
        return None

    return Obligation(f"{kind}-{clause}-{band_name.replace(' ', '_')}", harness, replay=_replay_scalar(kind, _pred),
                      validate=_validate_scalar(kind), encodes=[mcmc.apply_boundary_conditions],
                      bounds=f"one coordinate, {band_name}", timeout_ms=timeout_ms, theory="QF_FP/QF_BV",
                      stubs=["np.where -> symbolic if-then-else (no fork)"])


def band_fn(k):
    lo, hi = 2.0 ** k, (2.0 ** (k + 1) if k < 1023 else None)

    def band(x):
        a = z3.fpAbs(x)
        c = z3.fpGEQ(a, fpval(lo))
        if hi is not None:
            c = z3.And(c, z3.fpLT(a, fpval(hi)))
        return c
    return band


def band_small(sign):
    def band(x):
        a = z3.fpAbs(x)
        c = z3.fpLT(a, ONE)
        return z3.And(c, z3.fpIsNegative(x) if sign < 0 else z3.Not(z3.fpIsNegative(x)))
    return band


def make_vector(shape_kind, assign):
    """assign: tuple of kinds per coordinate ('plain'|'periodic'|'reflective'). Checks that every output
    coordinate is exactly the one-coordinate map of its own input (so the scalar clauses transfer), plain
    coordinates are bit-identical, and the input array is not modified."""
    d = len(assign)
    rows = 1 if shape_kind == "1d" else 2

    def harness(ctx: PathCtx):
        xs = [[fpvar(ctx, f"x{r}_{j}") for j in range(d)] for r in range(rows)]
        u = sarr(xs[0]) if shape_kind == "1d" else sarr(xs)
        per = [j for j, k in enumerate(assign) if k == "periodic"]
        ref = [j for j, k in enumerate(assign) if k == "reflective"]
        per_a = np.array(per, dtype=int) if per else None
        ref_a = np.array(ref, dtype=int) if ref else None
        before = [[e for e in row] for row in xs]
        out = run_map(u, per_a, ref_a)
        conds_plain, conds_map, untouched = [], [], True
        for r in range(rows):
            for j, k in enumerate(assign):
                o = out[j] if shape_kind == "1d" else out[r, j]
                cur_in = u[j] if shape_kind == "1d" else u[r, j]
                untouched = untouched and (cur_in is before[r][j])
                if k == "plain":
                    conds_plain.append(z3.fpToIEEEBV(o.z) == z3.fpToIEEEBV(xs[r][j].z))
                else:
                    single = run_map(sarr([xs[r][j]]), np.array([0]) if k == "periodic" else None,
                                     np.array([0]) if k == "reflective" else None)[0]
                    conds_map.append(z3.fpToIEEEBV(o.z) == z3.fpToIEEEBV(single.z))
                ctx.observe(f"r{r}_{j}", o.z)
        ctx.check("plain-bit-identical", z3.And(*conds_plain) if conds_plain else z3.BoolVal(True))
        ctx.check("coordinatewise-map", z3.And(*conds_map) if conds_map else z3.BoolVal(True))
        ctx.check("input-not-modified", z3.BoolVal(bool(untouched)))
        ctx.check("shape-preserved", z3.BoolVal(out.shape == u.shape))
        return None

    def concrete(model):
        arr = np.array([[float(model[f"x{r}_{j}"]) for j in range(d)] for r in range(rows)])
        if shape_kind == "1d":
            arr = arr[0]
        per = [j for j, k in enumerate(assign) if k == "periodic"]
        ref = [j for j, k in enumerate(assign) if k == "reflective"]
        return arr, mcmc.apply_boundary_conditions(arr, np.array(per, dtype=int) if per else None,
                                                   np.array(ref, dtype=int) if ref else None)

    def replay(model, label, v):
        arr, out = concrete(model)
        a2 = np.atleast_2d(arr)
        o2 = np.atleast_2d(out)
        bad = False
        for r in range(rows):
            for j, k in enumerate(assign):
                if k == "plain" and label == "plain-bit-identical" and bits_of(a2[r, j]) != bits_of(o2[r, j]):
                    bad = True
                if k != "plain" and label == "coordinatewise-map":
                    s = mcmc.apply_boundary_conditions(np.array([a2[r, j]]), np.array([0]) if k == "periodic" else None,
                                                       np.array([0]) if k == "reflective" else None)[0]
                    if bits_of(s) != bits_of(o2[r, j]):
                        bad = True
        return {"reproduced": bad, "signature": f"vector:{label}:{','.join(assign)}",
                "payload": {"input": arr.tolist(), "output": out.tolist(), "assign": assign},
                "what": f"apply_boundary_conditions({arr.tolist()}, kinds={assign}) = {out.tolist()} violates {label}"}

    def validate(w, ret):
        arr, out = concrete(w)
        o2 = np.atleast_2d(out)
        for r in range(rows):
            for j in range(d):
                if bits_of(o2[r, j]) != bits_of(float(w[f"obs:r{r}_{j}"])):
                    return False, f"shim/numpy differ at ({r},{j}) for input {arr.tolist()}"
        return True, ""

    return Obligation(f"vector-{shape_kind}-{'-'.join(a[:3] for a in assign)}", harness, replay=replay, validate=validate,
                      encodes=[mcmc.apply_boundary_conditions], bounds=f"{shape_kind} array, d={d}, kinds {assign}, all finite doubles",
                      timeout_ms=120000, theory="QF_FP/QF_BV")


def make_check_bounds(shape_kind, assign):
    d = len(assign)
    rows = 1 if shape_kind == "1d" else 2

    def harness(ctx: PathCtx):
        xs = [[fpvar(ctx, f"x{r}_{j}") for j in range(d)] for r in range(rows)]
        u = sarr(xs[0]) if shape_kind == "1d" else sarr(xs)
        per = [j for j, k in enumerate(assign) if k == "periodic"]
        ref = [j for j, k in enumerate(assign) if k == "reflective"]
        res = mcmc.check_bounds(u, np.array(per, dtype=int) if per else None, np.array(ref, dtype=int) if ref else None)
        res = [bool(res)] if shape_kind == "1d" else [bool(b) for b in res]
        conds = []
        for r in range(rows):
            spec = z3.And(*[in_unit(xs[r][j].z) for j, k in enumerate(assign) if k == "plain"]) \
                if "plain" in assign else z3.BoolVal(True)
            conds.append(spec == z3.BoolVal(res[r]))
        ctx.check("accepts-iff-plain-in-unit", z3.And(*conds))
        ctx.notes["res"] = res
        return res

    def concrete(model):
        arr = np.array([[float(model[f"x{r}_{j}"]) for j in range(d)] for r in range(rows)])
        if shape_kind == "1d":
            arr = arr[0]
        per = [j for j, k in enumerate(assign) if k == "periodic"]
        ref = [j for j, k in enumerate(assign) if k == "reflective"]
        res = mcmc.check_bounds(arr, np.array(per, dtype=int) if per else None, np.array(ref, dtype=int) if ref else None)
        return arr, ([bool(res)] if shape_kind == "1d" else [bool(b) for b in res])

    def replay(model, label, v):
        arr, res = concrete(model)
        a2 = np.atleast_2d(arr)
        spec = [all(0.0 <= a2[r, j] <= 1.0 for j, k in enumerate(assign) if k == "plain") for r in range(rows)]
        return {"reproduced": spec != res, "signature": f"check_bounds:{','.join(assign)}",
                "payload": {"input": arr.tolist(), "result": res, "expected": spec},
                "what": f"check_bounds({arr.tolist()}, kinds={assign}) = {res}, expected {spec}"}

    def validate(w, ret):
        arr, res = concrete(w)
        return (res == ret), f"check_bounds shim {ret} vs numpy {res} at {arr.tolist()}"

    return Obligation(f"check-bounds-{shape_kind}-{'-'.join(a[:3] for a in assign)}", harness, replay=replay, validate=validate,
                      encodes=[mcmc.check_bounds], bounds=f"{shape_kind} array, d={d}, kinds {assign}, all finite doubles",
                      timeout_ms=60000, theory="QF_FP")


def make_index_forms(d, per_list, ref_list, rounds=2):
    """the index sets as the sampler passes them: Python lists (SamplerConfig stores lists), in the order the user wrote them, the SAME
    list objects handed to check_bounds and apply_boundary_conditions on every kernel iteration. Per round: check_bounds accepts iff the
    non-designated coordinates are in [0,1]; every output coordinate is the one-coordinate map of its own input; afterwards the caller's
    lists are what they were."""
    kinds = ["plain"] * d
    for j in per_list or []:
        kinds[j] = "periodic"
    for j in ref_list or []:
        kinds[j] = "reflective"

    def run_seq(u, per, ref, apply_fn, check_fn):
        outs = []
        for _ in range(rounds):
            ok = check_fn(u, per, ref)
            out = apply_fn(u, per, ref)
            outs.append((ok, out))
        return outs

    def harness(ctx: PathCtx):
        xs = [fpvar(ctx, f"x0_{j}") for j in range(d)]
        u = sarr(xs)
        per = list(per_list) if per_list is not None else None
        ref = list(ref_list) if ref_list is not None else None
        outs = run_seq(u, per, ref, run_map, lambda a, p_, r_: bool(mcmc.check_bounds(a, p_, r_)))
        ctx.check("index-lists-unchanged", z3.BoolVal(per == (list(per_list) if per_list is not None else None)
                                                      and ref == (list(ref_list) if ref_list is not None else None)),
                  detail={"periodic": per, "reflective": ref})
        spec = z3.And(*[in_unit(xs[j].z) for j in range(d) if kinds[j] == "plain"]) if "plain" in kinds else z3.BoolVal(True)
        for rnd, (ok, out) in enumerate(outs):
            ctx.check(f"round{rnd}:accepts-iff-plain-in-unit", spec == z3.BoolVal(ok))
            cp, cm = [], []
            for j, k in enumerate(kinds):
                if k == "plain":
                    cp.append(z3.fpToIEEEBV(out[j].z) == z3.fpToIEEEBV(xs[j].z))
                else:
                    single = run_map(sarr([xs[j]]), np.array([0]) if k == "periodic" else None, np.array([0]) if k == "reflective" else None)[0]
                    cm.append(z3.fpToIEEEBV(out[j].z) == z3.fpToIEEEBV(single.z))
            ctx.check(f"round{rnd}:plain-bit-identical", z3.And(*cp) if cp else z3.BoolVal(True))
            ctx.check(f"round{rnd}:coordinatewise-map", z3.And(*cm) if cm else z3.BoolVal(True))
        return None

    def replay(model, label, v):
        arr = np.array([float(model[f"x0_{j}"]) for j in range(d)])
        per = list(per_list) if per_list is not None else None
        ref = list(ref_list) if ref_list is not None else None
        outs = run_seq(arr, per, ref, mcmc.apply_boundary_conditions, lambda a, p_, r_: bool(mcmc.check_bounds(a, p_, r_)))
        bad = []
        if per != (list(per_list) if per_list is not None else None) or ref != (list(ref_list) if ref_list is not None else None):
            bad.append(f"the caller's lists became periodic={per}, reflective={ref}")
        spec = all(0.0 <= arr[j] <= 1.0 for j in range(d) if kinds[j] == "plain")
        for rnd, (ok, out) in enumerate(outs):
            if ok != spec:
                bad.append(f"round {rnd}: check_bounds = {ok}, expected {spec}")
            for j, k in enumerate(kinds):
                if k == "plain":
                    if bits_of(arr[j]) != bits_of(out[j]):
                        bad.append(f"round {rnd}: plain coordinate {j} changed {arr[j]!r} -> {out[j]!r}")
                else:
                    sgl = mcmc.apply_boundary_conditions(np.array([arr[j]]), np.array([0]) if k == "periodic" else None,
                                                         np.array([0]) if k == "reflective" else None)[0]
                    if bits_of(sgl) != bits_of(out[j]):
                        bad.append(f"round {rnd}: {k} coordinate {j}: {arr[j]!r} -> {out[j]!r}, the one-coordinate map gives {sgl!r}")
        return {"reproduced": bool(bad), "signature": f"index-forms:{label.split(':')[-1]}", "payload": {"input": arr.tolist(), "periodic": per_list, "reflective": ref_list},
                "what": f"check_bounds / apply_boundary_conditions on {arr.tolist()} with periodic={per_list}, reflective={ref_list} (lists, {rounds} rounds): " + "; ".join(bad[:3])}

    nm = f"index-forms-d{d}-per{'_'.join(map(str, per_list)) if per_list is not None else 'None'}-ref{'_'.join(map(str, ref_list)) if ref_list is not None else 'None'}"
    return Obligation(nm, harness, replay=replay, encodes=[mcmc.apply_boundary_conditions, mcmc.check_bounds],
                      bounds=f"1d array, d={d}, periodic={per_list}, reflective={ref_list} as Python lists in this order, {rounds} rounds on the same list objects, all finite doubles",
                      timeout_ms=120000, theory="QF_FP/QF_BV")


def shim_selftest():
    """differential test of the SymFP operators against real numpy on edge-case doubles (concrete evaluation)."""
    vals = [0.0, -0.0, 5e-324, -5e-324, 1.0, -1.0, 0.5, -0.5, 1.5, -1.5, 2.0, -2.0, 2.5, -2.5, 3.0, -3.0,
            1 - 2 ** -53, 1 + 2 ** -52, -(1 - 2 ** -53), 2.0 ** 52, 2.0 ** 52 + 1, 2.0 ** 53, 2.0 ** 53 + 2, -2.0 ** 52 - 1,
            2.0 ** 62, 2.0 ** 63, -2.0 ** 63, 2.0 ** 63 * 1.5, -2.0 ** 64, 1e300, -1e300, 1.7976931348623157e308,
            -1e-20, 1e-20, 123456.789, -123456.789, 3.999999999999999, -3.999999999999999, 2.2250738585072014e-308]
    bad = []
    n = 0
    for v in vals:
        x = SymFP(fpval(v))
        checks = [
            ("mod1", lambda: x % 1.0, np.float64(v) % 1.0),
            ("mod2", lambda: x % 2.0, np.float64(v) % 2.0),
            ("floor", lambda: x.floor(), np.floor(v)),
            ("sub_int", lambda: x - x.floor().to_int64(), np.float64(v) - np.floor(np.array([v])).astype(int)[0]),
        ]
        for name, f, expect in checks:
            got = z3.simplify(f().z)
            from vf.engine.core import z3_value_to_py
            g = z3_value_to_py(got)
            n += 1
            if not isinstance(g, float) or bits_of(g) != bits_of(float(expect)):
                bad.append(f"{name}({v!r}): shim {g!r} numpy {float(expect)!r}")
        with np.errstate(invalid="ignore"):
            ei = int(np.floor(np.array([v])).astype(int)[0])
        gi = z3.simplify(x.floor().to_int64().z).as_signed_long()
        n += 1
        if ei != gi:
            bad.append(f"astype_int({v!r}): shim {gi} numpy {ei}")
    return n, bad


def make_selftest():
    def harness(ctx: PathCtx):
        n, bad = shim_selftest()
        ctx.notes["n"] = n
        ctx.check("shim-agrees-with-numpy", z3.BoolVal(not bad), detail=bad[:5])
        x = fpvar(ctx, "x")  # keep a satisfiable path condition for the vacuity guard
        return None

    def replay(model, label, v):
        n, bad = shim_selftest()
        return {"reproduced": False, "what": f"shim self-test failures: {bad[:5]}"}

    return Obligation("fp-shim-selftest", harness, replay=replay, encodes=[], bounds="40 edge-case doubles x 5 operators",
                      theory="concrete evaluation")


QUICK_BANDS = [0, 1, 52, 53, 62, 63, 1023]


def obligations(tier):
    obs = [make_selftest()]
    obs += [make_scalar("periodic", "range"), make_scalar("periodic", "idempotent"),
            make_scalar("reflective", "range"), make_scalar("reflective", "idempotent")]
    bands = QUICK_BANDS if tier == "quick" else list(range(0, 1024))
    pbands = [0, 1, 30, 51, 52, 1023] if tier == "quick" else list(range(0, 1024))
    obs.append(make_scalar("periodic", "value", band=band_small(+1), band_name="band 0<=x<1"))
    obs.append(make_scalar("periodic", "value", band=band_small(-1), band_name="band -1<x<=-0"))
    for k in pbands:
        obs.append(make_scalar("periodic", "value", band=band_fn(k), band_name=f"band 2^{k}<=|x|<2^{k + 1}"))
    obs.append(make_scalar("reflective", "triangle", band=band_small(+1), band_name="band 0<=x<1"))
    obs.append(make_scalar("reflective", "triangle", band=band_small(-1), band_name="band -1<x<=-0"))
    for k in bands:
        obs.append(make_scalar("reflective", "triangle", band=band_fn(k), band_name=f"band 2^{k}<=|x|<2^{k + 1}"))
    kinds = ("plain", "periodic", "reflective")
    for assign in itertools.product(kinds, repeat=2):
        obs.append(make_vector("1d", assign))
        obs.append(make_check_bounds("1d", assign))
    obs.append(make_vector("2d", ("periodic", "plain", "reflective")))
    obs.append(make_check_bounds("2d", ("plain", "periodic")))
    obs.append(make_check_bounds("2d", ("plain", "plain")))
    obs.append(make_index_forms(4, [1, 0, 3], None))
    obs.append(make_index_forms(3, [2], [0]))
    obs.append(make_index_forms(4, None, [2, 0, 3]))
    # the closing clause of the property ("a symmetric random-walk proposal followed by the map is a symmetric proposal on the folded
    # space"): the real RWM step in d=2 with coordinate 0 reflective (C03's obligation; periodic coordinates and d=1 are decided there
    # as well). Reports a known finding: with a scale matrix that correlates the folded coordinate with another one the clause is false.
    from vf.props.c03 import make_kernel
    obs.append(make_kernel("rwm", 2, "reflective", 1))
    obs.append(make_kernel("rwm", 1, "reflective", 1))
    obs.append(make_kernel("rwm", 1, "periodic", Fraction(1, 2)))
    if tier == "thorough":
        for assign in itertools.product(kinds, repeat=3):
            obs.append(make_vector("1d", assign))
            obs.append(make_check_bounds("1d", assign))
        obs.append(make_vector("2d", ("reflective", "periodic")))
        obs.append(make_check_bounds("2d", ("reflective", "plain", "plain")))
    return obs
