"""C05 - temperature schedule is monotone, bounded and ESS-controlled."""
from __future__ import annotations

import math
from fractions import Fraction

import numpy as np
import z3

import tempest.steps.reweight as rw_mod
import tempest.state_manager as sm_mod
from tempest.state_manager import StateManager

from vf.engine.core import PathCtx, SymBool
from vf.engine.harness import Obligation
from vf.engine.real import LogVal, SymReal
from vf.engine.arr import NpProxy, patched, sarr
from vf.engine.util import real, eq, le, lt, scalar

PROPERTY_ID = "C05"
ASSUMPTIONS = [
    "Level A: the particle pool is an arbitrary *family* beta -> (unnormalised weights p_s(beta) > 0, evidence Z(beta) > 0) "
    "given by uninterpreted functions (equal beta => equal values; a superset of every real pool); "
    "volume_variation is an uninterpreted function of the normalised weights",
    "Level B: the real compute_logw_and_logz on a one-batch beta=0 history, exact reals",
    "bisection depth bounded by the BETA_TOLERANCE constructor argument stated per obligation",
]


def max_model(arr):
    """np.max without forking: fresh m with m >= every element and m equal to one of them."""
    from vf.engine.core import cur
    xs = [x for x in np.asarray(arr, dtype=object).reshape(-1)]
    if isinstance(xs[0], FamVal):
        return FamVal.max_of(xs)
    ctx = cur()
    es = [x.exp() if isinstance(x, LogVal) else SymReal.lift(x) for x in xs]
    m = z3.Real(ctx.fresh_name("max"))
    ms = SymReal(m, sign="+" if all(e.sign == "+" for e in es) else None)
    ctx.assume(z3.And(*[(ms >= e).z for e in es]))
    ctx.assume(z3.Or(*[(ms == e).z for e in es]))
    return LogVal.of_positive(ms) if isinstance(xs[0], LogVal) else ms


class FamVal:
    """Abstract value of the uninterpreted pool family, tagged with the beta it was computed at.
    kind: 'logw' (log-weight of sample s, possibly normalised), 'logmax', 'w' (exp-domain weight up to a common
    positive factor), 'sum' (sum of all N weights), 'norm' (normalised weight of sample s).
    Only the operations the reweighting code legitimately performs are defined; anything else is a harness error."""

    def __init__(self, kind, beta, s=None, N=None):
        self.kind, self.beta, self.s, self.N = kind, beta, s, N

    @staticmethod
    def max_of(xs):
        b = xs[0].beta
        if not all(x.kind == "logw" and x.beta is b for x in xs):
            raise HarnessErrorC05("max over values of different temperatures")
        return FamVal("logmax", b, N=xs[0].N)

    def __sub__(self, o):
        if self.kind == "logw" and isinstance(o, FamVal) and o.kind == "logmax" and o.beta is self.beta:
            return FamVal("logw", self.beta, self.s, self.N)  # common shift: same weights up to a factor
        raise HarnessErrorC05(f"unsupported: {self.kind} - {getattr(o, 'kind', o)}")

    def exp(self):
        if self.kind == "logw":
            return FamVal("w", self.beta, self.s, self.N)
        raise HarnessErrorC05(f"exp of {self.kind}")

    def __add__(self, o):
        if isinstance(o, FamVal) and o.beta is self.beta and self.kind in ("w", "psum") and o.kind == "w":
            seen = (self.s if isinstance(self.s, tuple) else (self.s,)) + (o.s,)
            if len(set(seen)) != len(seen):
                raise HarnessErrorC05("a weight added twice")
            if len(seen) == self.N:
                return FamVal("sum", self.beta, N=self.N)
            return FamVal("psum", self.beta, seen, self.N)
        raise HarnessErrorC05(f"unsupported: {self.kind} + {getattr(o, 'kind', o)}")

    __radd__ = __add__

    def __truediv__(self, o):
        if self.kind in ("w", "norm") and isinstance(o, FamVal) and o.kind == "sum" and o.beta is self.beta:
            return FamVal("norm", self.beta, self.s, self.N)
        raise HarnessErrorC05(f"unsupported: {self.kind} / {getattr(o, 'kind', o)}")

    def __repr__(self):
        return f"Fam<{self.kind}@{self.beta} s={self.s}>"


class HarnessErrorC05(Exception):
    pass


class Family:
    """memoised uninterpreted pool: beta -> ESS / evidence / volume-variation / normalised weights."""

    def __init__(self, N):
        self.N = N
        self.E = z3.Function("ESSf", z3.RealSort(), z3.RealSort())
        self.Z = z3.Function("Zf", z3.RealSort(), z3.RealSort())
        self.VV = z3.Function("VVf", z3.RealSort(), z3.RealSort())
        self.W = [z3.Function(f"Wn{s}", z3.RealSort(), z3.RealSort()) for s in range(N)]
        self.queried = []
        self.ecalls = 0
        self.vcalls = 0

    @staticmethod
    def bt(beta):
        return SymReal.lift(beta).term()

    def compute(self, ctx):
        fam = self

        def compute_logw_and_logz(beta_final=1.0, normalize=True):
            b = SymReal.lift(beta_final)
            fam.queried.append(b)
            zt = fam.Z(fam.bt(b))
            ctx.assume(zt > 0)
            ctx.observe(f"Zq{len(fam.queried) - 1}", zt)
            ctx.observe(f"bq{len(fam.queried) - 1}", fam.bt(b))
            return sarr([FamVal("logw", b, s, fam.N) for s in range(fam.N)]), LogVal.of_positive(SymReal(zt, sign="+"))
        return compute_logw_and_logz

    def _tag(self, w, kinds):
        xs = [x for x in np.asarray(w, dtype=object).reshape(-1)]
        if len(xs) != self.N or not all(isinstance(x, FamVal) and x.kind in kinds for x in xs):
            raise HarnessErrorC05(f"metric called on {xs}")
        b = xs[0].beta
        if not all(x.beta is b for x in xs) or [x.s for x in xs] != list(range(self.N)):
            raise HarnessErrorC05("metric called on weights of mixed temperatures / order")
        return b

    def ess(self, ctx):
        fam = self

        def effective_sample_size(w):
            b = fam._tag(w, ("w", "norm"))
            t = fam.E(fam.bt(b))
            ctx.assume(z3.And(t >= 1, t <= fam.N))
            fam.ecalls += 1
            ctx.observe(f"Eq{fam.ecalls - 1}", t)
            return SymReal(t, sign="+")
        return effective_sample_size

    def vv(self, ctx):
        fam = self

        def volume_variation(u, w):
            b = fam._tag(w, ("norm",))
            t = fam.VV(fam.bt(b))
            ctx.assume(t >= 0)
            fam.vcalls += 1
            ctx.observe(f"Vq{fam.vcalls - 1}", t)
            return SymReal(t, sign="0+")
        return volume_variation


def spec_ess(ps):
    s = ps[0]
    for x in ps[1:]:
        s = s + x
    q = ps[0] * ps[0]
    for x in ps[1:]:
        q = q + x * x
    return (s * s) / q


def make_levelA(mode, N, tol, first=False):
    tolf = Fraction(tol)

    def harness(ctx: PathCtx):
        st = StateManager(n_dim=1)
        fam = Family(N)
        beta_prev = real(ctx, "beta_prev", lo=0, hi=1)
        target = real(ctx, "ess_target", lo=0, lo_strict=True)  # ess_ratio * n_particles with n_particles = 1
        vtarget = real(ctx, "vv_target", lo=0, lo_strict=True) if mode == "vol" else None
        if not first:
            st.update_current({"u": np.zeros((N, 1)), "logl": np.zeros(N), "beta": 0.0, "logz": 0.0})
            st.commit_current_to_history()
        st._current["beta"] = beta_prev
        st._current["iter"] = 3
        st.compute_logw_and_logz = fam.compute(ctx)
        rw = rw_mod.Reweighter(state=st, pbar=None, n_particles=1, ess_ratio=target, volume_variation=vtarget,
                               ESS_TOLERANCE=0.01, BETA_TOLERANCE=float(tolf))
        proxy = NpProxy(overrides={"max": max_model, "isfinite": lambda x: True})
        try:
            with patched(rw_mod, np=proxy, volume_variation=fam.vv(ctx), effective_sample_size=fam.ess(ctx)):
                weights = rw.run()
        except HarnessErrorC05 as e:
            ctx.fail("weights-and-metrics-are-computed-from-one-temperature", str(e))
            return None
        beta = st._current["beta"]
        ess = st._current["ess"]
        logz = st._current["logz"]
        ctx.check("iter-incremented", z3.BoolVal(st._current["iter"] == 4))
        if first:
            ctx.check("first-iteration-beta==0", eq(beta, 0))
            ctx.check("first-iteration-uniform-weights", z3.BoolVal(len(weights) == 1 and float(weights[0]) == 1.0))
            return None
        beta = SymReal.lift(beta)
        ctx.observe("beta", beta.term())
        ctx.check("beta>=beta_prev", le(beta_prev, beta))
        ctx.check("beta<=1", le(beta, 1))
        E = lambda b: SymReal(fam.E(fam.bt(b)))
        advanced = (beta > beta_prev).z
        if mode == "ess":
            ctx.check("advance=>ESS(beta)>=target", z3.Implies(advanced, le(target, E(beta))))
        else:
            cands = [z3.And(le(beta, bq), le(target, E(bq))) for bq in fam.queried]
            ctx.check("advance=>beta<=some-ESS-admissible-beta", z3.Implies(advanced, z3.Or(*cands)))
        ws = [x for x in np.asarray(weights, dtype=object).reshape(-1)]
        okw = len(ws) == N and all(isinstance(x, FamVal) and x.kind == "norm" and x.s == i for i, x in enumerate(ws))
        ctx.check("returned-weights-are-normalised-pool-weights", z3.BoolVal(bool(okw)))
        if okw:
            ctx.check("returned-weights-are-at-recorded-beta", z3.And(*[eq(x.beta, beta) for x in ws]))
        ctx.check("recorded-ess-is-at-recorded-beta", eq(ess, E(beta)))
        ctx.check("recorded-logz-is-at-recorded-beta", eq(logz.exp(), SymReal(fam.Z(fam.bt(beta)))))
        return None

    def replay(m, label, v):
        return concrete_family_replay(m, label, mode, N, tolf)

    return Obligation(f"A-{mode}{'-first' if first else ''}-N{N}-tol{tol}", harness, replay=replay,
                      encodes=[rw_mod.Reweighter.run, rw_mod.Reweighter._find_beta_upper_limit, rw_mod.Reweighter._find_beta_bisection,
                               rw_mod.Reweighter._finalize_iteration, rw_mod.Reweighter._compute_metric_and_weights],
                      bounds=f"pool of N={N} samples as an uninterpreted family, symbolic beta_prev in [0,1], symbolic ESS target > 0, "
                             f"BETA_TOLERANCE={tol} (bisection depth <= {math.ceil(math.log2(1 / tolf))})",
                      stubs=["state.compute_logw_and_logz -> memoised uninterpreted family tagged with beta",
                             "effective_sample_size / volume_variation -> uninterpreted functions ESSf(beta) in [1,N], VVf(beta) >= 0",
                             "np.isfinite -> True (reals)"],
                      theory="QF_UFLRA", timeout_ms=30000, max_paths=6000, max_decisions=200)


def make_levelA_two_steps(mode, N, tol):
    """two consecutive reweighting steps on one Reweighter object; between them a batch is committed, so the pool (the
    uninterpreted family) changes: nothing remembered from the first step may stand in for the second pool's ESS."""
    tolf = Fraction(tol)

    def harness(ctx: PathCtx):
        st = StateManager(n_dim=1)
        beta_prev = real(ctx, "beta_prev", lo=0, hi=1)
        target = real(ctx, "ess_target", lo=0, lo_strict=True)
        vtarget = real(ctx, "vv_target", lo=0, lo_strict=True) if mode == "vol" else None
        st.update_current({"u": np.zeros((N, 1)), "logl": np.zeros(N), "beta": 0.0, "logz": 0.0})
        st.commit_current_to_history()
        st._current["beta"] = beta_prev
        st._current["iter"] = 3
        rw = rw_mod.Reweighter(state=st, pbar=None, n_particles=1, ess_ratio=target, volume_variation=vtarget, ESS_TOLERANCE=0.01, BETA_TOLERANCE=float(tolf))
        proxy = NpProxy(overrides={"max": max_model, "isfinite": lambda x: True})
        fams = []
        for step in range(2):
            fam = Family(N)
            # a different pool per step: fresh uninterpreted functions
            fam.E = z3.Function(f"ESSf_{step}", z3.RealSort(), z3.RealSort())
            fam.Z = z3.Function(f"Zf_{step}", z3.RealSort(), z3.RealSort())
            fam.VV = z3.Function(f"VVf_{step}", z3.RealSort(), z3.RealSort())
            fams.append(fam)
            st.compute_logw_and_logz = fam.compute(ctx)
            b_before = SymReal.lift(st._current["beta"])
            try:
                with patched(rw_mod, np=proxy, volume_variation=fam.vv(ctx), effective_sample_size=fam.ess(ctx)):
                    rw.run()
            except HarnessErrorC05 as e:
                ctx.fail("weights-and-metrics-are-computed-from-one-temperature", str(e))
                return None
            beta = SymReal.lift(st._current["beta"])
            E = lambda b, f=fam: SymReal(f.E(f.bt(b)))
            advanced = (beta > b_before).z
            ctx.check(f"step{step + 1}:beta-monotone-and-bounded", z3.And(le(b_before, beta), le(beta, 1)))
            if mode == "ess":
                ctx.check(f"step{step + 1}:advance=>ESS(beta)>=target-on-the-current-pool", z3.Implies(advanced, le(target, E(beta))))
            else:
                cands = [z3.And(le(beta, bq), le(target, E(bq))) for bq in fam.queried]
                ctx.check(f"step{step + 1}:advance=>beta<=some-ESS-admissible-beta-of-the-current-pool", z3.Implies(advanced, z3.Or(*cands)))
            ctx.check(f"step{step + 1}:recorded-ess-is-at-recorded-beta-of-the-current-pool", eq(st._current["ess"], E(beta)))
            st.commit_current_to_history()  # the new batch changes the pool
        return None

    def replay(m, label, v):
        """scripted two-step pool: ESS(beta) decreasing; the second pool has a much lower ESS everywhere"""
        st = StateManager(n_dim=1)
        st.update_current({"u": np.zeros((N, 1)), "logl": np.zeros(N), "beta": 0.0, "logz": 0.0})
        st.commit_current_to_history()
        st._current["beta"] = 0.0
        st._current["iter"] = 3
        target = 1.5
        rw = rw_mod.Reweighter(state=st, pbar=None, n_particles=1, ess_ratio=target, volume_variation=(0.3 if mode == "vol" else None),
                               ESS_TOLERANCE=0.01, BETA_TOLERANCE=float(tolf))
        pools = [lambda b: 2.0 - 0.9 * b, lambda b: 2.0 - 4.0 * b]
        vvs = [lambda b: 0.25 + 0.4 * b, lambda b: 0.2 * b]  # step 1 is held back by the volume target, step 2 is not
        bad = None
        for step in range(2):
            ess_of, vv_of = pools[step], vvs[step]

            def compute(beta_final=1.0, normalize=True):
                return sarr([FamVal("logw", beta_final, s_, N) for s_ in range(N)]), -float(beta_final)
            st.compute_logw_and_logz = compute
            tagf = lambda w: [x for x in np.asarray(w, dtype=object).reshape(-1)][0].beta
            b0 = st._current["beta"]
            with patched(rw_mod, np=NpProxy(overrides={"max": max_model}), volume_variation=lambda u, w, vv_of=vv_of: vv_of(tagf(w)),
                         effective_sample_size=lambda w, ess_of=ess_of: max(1.0, ess_of(tagf(w)))):
                rw.run()
            b1 = st._current["beta"]
            if b1 > b0 and max(1.0, ess_of(b1)) < target - 1e-9 and bad is None:
                bad = (step + 1, b0, b1, max(1.0, ess_of(b1)))
            st.commit_current_to_history()
        return {"reproduced": bad is not None, "signature": f"Reweighter.run:second-step-uses-stale-limit:{mode}",
                "payload": {"violation": bad, "target": target},
                "what": (f"two consecutive Reweighter.run() calls on a pool whose ESS drops after the first batch: step {bad[0]} advanced from beta {bad[1]:.4f} to "
                         f"{bad[2]:.4f} where the current pool's ESS is {bad[3]:.3f} < target {target}") if bad else "no violation in the scripted two-step scenario"}

    return Obligation(f"A2-{mode}-N{N}-tol{tol}", harness, replay=replay,
                      encodes=[rw_mod.Reweighter.run, rw_mod.Reweighter._find_beta_upper_limit, rw_mod.Reweighter._find_beta_bisection],
                      bounds=f"two consecutive steps on one Reweighter, a different uninterpreted pool per step, BETA_TOLERANCE={tol}, symbolic beta_prev / targets",
                      stubs=["state.compute_logw_and_logz / effective_sample_size / volume_variation -> per-step uninterpreted families"],
                      theory="QF_UFLRA", timeout_ms=30000, max_paths=30000, max_decisions=400)


def concrete_family_replay(m, label, mode, N, tolf):
    """Replay a Level-A counterexample: the real Reweighter.run is executed with plain floats against a scripted
    concrete pool double that answers the k-th evidence / ESS / volume query with the solver model's value."""
    def seq(prefix):
        out, i = [], 0
        while f"obs:{prefix}{i}" in m:
            out.append(float(m[f"obs:{prefix}{i}"]))
            i += 1
        return out
    Zs, Es, Vs = seq("Zq"), seq("Eq"), seq("Vq")
    table = {}
    st = StateManager(n_dim=1)
    st.update_current({"u": np.zeros((N, 1)), "logl": np.zeros(N), "beta": 0.0, "logz": 0.0})
    st.commit_current_to_history()
    beta_prev = float(m["beta_prev"])
    st._current["beta"] = beta_prev
    st._current["iter"] = 3
    cnt = {"z": 0, "e": 0, "v": 0}

    ztable = {}

    def compute_logw_and_logz(beta_final=1.0, normalize=True):
        if beta_final in ztable:
            zv = ztable[beta_final]  # memoised family: the same temperature gives the same evidence
        else:
            zv = Zs[cnt["z"]] if cnt["z"] < len(Zs) else 1.0 + 0.37 * (len(ztable) + 1)
            if zv in ztable.values():
                zv = zv * (1.0 + 0.01 * (len(ztable) + 1))  # keep evidences at distinct temperatures distinguishable
            ztable[beta_final] = zv
        cnt["z"] += 1
        return sarr([FamVal("logw", beta_final, s_, N) for s_ in range(N)]), math.log(zv)

    def tag(w):
        xs = [x for x in np.asarray(w, dtype=object).reshape(-1)]
        return xs[0].beta

    def ess_fn(w):
        v_ = Es[cnt["e"]] if cnt["e"] < len(Es) else 1.0
        cnt["e"] += 1
        table[tag(w)] = v_
        return v_

    def vv_fn(u, w):
        v_ = Vs[cnt["v"]] if cnt["v"] < len(Vs) else 0.0
        cnt["v"] += 1
        return v_

    st.compute_logw_and_logz = compute_logw_and_logz
    target = float(m["ess_target"])
    rw = rw_mod.Reweighter(state=st, pbar=None, n_particles=1, ess_ratio=target,
                           volume_variation=float(m["vv_target"]) if mode == "vol" else None,
                           ESS_TOLERANCE=0.01, BETA_TOLERANCE=float(tolf))
    proxy = NpProxy(overrides={"max": max_model})
    try:
        with patched(rw_mod, np=proxy, volume_variation=vv_fn, effective_sample_size=ess_fn):
            weights = rw.run()
    except HarnessErrorC05 as e:
        return {"reproduced": label == "weights-and-metrics-are-computed-from-one-temperature",
                "signature": f"Reweighter.run:mixed-temperatures:{mode}", "payload": {"beta_prev": beta_prev, "target": target},
                "what": f"Reweighter.run combined quantities computed at different temperatures: {e}"}
    beta = st._current["beta"]
    ess = st._current["ess"]
    ws = [x for x in np.asarray(weights, dtype=object).reshape(-1)]
    wbetas = [getattr(x, "beta", None) for x in ws]
    E_at = table.get(beta)
    bad = False
    if label == "beta>=beta_prev":
        bad = beta < beta_prev
    elif label == "beta<=1":
        bad = beta > 1
    elif label == "advance=>ESS(beta)>=target":
        bad = beta > beta_prev and E_at is not None and E_at < target
    elif label == "advance=>beta<=some-ESS-admissible-beta":
        bad = beta > beta_prev and not any(b_ >= beta and e_ >= target for b_, e_ in table.items())
    elif label == "returned-weights-are-at-recorded-beta":
        bad = any(b_ != beta for b_ in wbetas)
    elif label == "recorded-ess-is-at-recorded-beta":
        bad = E_at is None or ess != E_at
    elif label == "recorded-logz-is-at-recorded-beta":
        lz = st._current["logz"]
        bad = beta not in ztable or not math.isclose(float(lz), math.log(ztable[beta]), rel_tol=1e-12, abs_tol=1e-12)
    elif label == "returned-weights-are-normalised-pool-weights":
        bad = not all(isinstance(x, FamVal) and x.kind == "norm" for x in ws)
    return {"reproduced": bool(bad), "signature": f"Reweighter.run:{label}:{mode}",
            "payload": {"beta_prev": beta_prev, "target": target, "ess_table": {str(k): v for k, v in table.items()},
                        "evidence_table": {str(k): v for k, v in ztable.items()}, "recorded_logz": float(st._current["logz"]) if not isinstance(st._current["logz"], LogVal) else None,
                        "beta": beta, "ess": ess, "weights_computed_at": wbetas},
            "what": f"Reweighter.run from beta_prev={beta_prev} with ESS target {target} on a scripted pool with ESS(beta) table "
                    f"{ {k: v for k, v in table.items()} }: recorded beta={beta}, ess={ess}, weights computed at {wbetas} ({label})"}


# ------------------------------------------------------------------------- Level B


def make_levelB(N, tol, ratio, D):
    tolf = Fraction(tol)
    ratio = Fraction(float(Fraction(ratio)))  # the double the constructor receives (19/10 is not representable)

    def build(ctx):
        st = StateManager(n_dim=1)
        ls = [LogVal.atom(f"l{j}", D) for j in range(N)]
        st.update_current({"u": np.zeros((N, 1)), "logl": sarr(ls), "beta": 0.0, "logz": LogVal({})})
        st.commit_current_to_history()
        st._current["beta"] = 0.0
        st._current["iter"] = 1
        return st, ls

    def harness(ctx: PathCtx):
        st, ls = build(ctx)
        rw = rw_mod.Reweighter(state=st, pbar=None, n_particles=1, ess_ratio=float(ratio), volume_variation=None,
                               ESS_TOLERANCE=0.01, BETA_TOLERANCE=float(tolf))
        with patched(rw_mod, np=NpProxy(exact_log=True, overrides={"max": max_model, "isfinite": lambda x: True})), \
                patched(sm_mod, np=NpProxy(exact_log=True)):
            weights = rw.run()
        beta = st._current["beta"]
        bc = SymReal.lift(beta).concrete()
        ctx.notes["beta"] = str(bc)
        ctx.check("beta-on-dyadic-grid-in[0,1]", z3.BoolVal(bc is not None and 0 <= bc <= 1))
        if bc is None:
            return None
        a = [SymReal(list(l.coef.keys())[0].a, sign="+") for l in ls]
        k = int(bc * D)
        spec = [x ** k if k else SymReal.const(1) for x in a]  # history is one beta=0 batch with logz=0: w_s = L_s^beta
        tot = spec[0]
        for x in spec[1:]:
            tot = tot + x
        ctx.check("weights==C04-spec-at-returned-beta", z3.And(*[eq(weights[s], spec[s] / tot) for s in range(N)]))
        ctx.check("ess==ESS-of-spec", eq(st._current["ess"], spec_ess(spec)))
        ctx.check("logz==log-mean-spec", eq(st._current["logz"].exp(), tot / N))
        if bc > 0:
            ctx.check("advance=>ESS>=target", le(ratio, spec_ess(spec)))
        return str(bc)

    def concrete(m):
        st = StateManager(n_dim=1)
        ll = np.array([D * math.log(float(m[f"expatom_l{j}"])) for j in range(N)])
        st.update_current({"u": np.zeros((N, 1)), "logl": ll, "beta": 0.0, "logz": 0.0})
        st.commit_current_to_history()
        st.set_current("beta", 0.0)
        st.set_current("iter", 1)
        rw = rw_mod.Reweighter(state=st, pbar=None, n_particles=1, ess_ratio=float(ratio), volume_variation=None,
                               ESS_TOLERANCE=0.01, BETA_TOLERANCE=float(tolf))
        w = rw.run()
        return st, ll, w

    def validate(wit, ret):
        for k_, v in wit.items():
            if k_.startswith("expatom") and not (1e-20 < float(v) < 1e20):
                return None, ""
        st, ll, w = concrete(wit)
        b = st.get_current("beta")
        if ret is None:
            return None, ""
        if abs(float(Fraction(ret)) - b) < 1e-12:
            return True, ""
        return None, f"float run took beta={b}, symbolic path {ret} (model on a comparison boundary)"

    def replay(m, label, v):
        st, ll, w = concrete(m)
        b = st.get_current("beta")
        spec = np.exp(b * ll)
        e = spec.sum() ** 2 / (spec ** 2).sum()
        bad = {"weights==C04-spec-at-returned-beta": not np.allclose(w, spec / spec.sum(), rtol=1e-7),
               "ess==ESS-of-spec": not math.isclose(st.get_current("ess"), e, rel_tol=1e-7),
               "logz==log-mean-spec": not math.isclose(math.exp(st.get_current("logz")), spec.mean(), rel_tol=1e-7),
               "advance=>ESS>=target": b > 0 and e < float(ratio) * (1 - 1e-9)}.get(label, False)
        return {"reproduced": bool(bad), "signature": f"Reweighter.run:{label}",
                "payload": {"logl": ll.tolist(), "beta": b, "ess": st.get_current("ess"), "weights": np.asarray(w).tolist()},
                "what": f"Reweighter.run on one beta=0 batch logl={ll.tolist()} target ESS {float(ratio)} tol {float(tolf)}: beta={b}, "
                        f"ess={st.get_current('ess')}, weights={np.asarray(w).tolist()} ({label})"}

    return Obligation(f"B-N{N}-tol{tol}-ratio{ratio}", harness, replay=replay, validate=validate,
                      encodes=[rw_mod.Reweighter.run, StateManager.compute_logw_and_logz, rw_mod.effective_sample_size],
                      bounds=f"one beta=0 batch of N={N} symbolic log-likelihoods, ESS target {ratio}, BETA_TOLERANCE={tol}, exponent grid 1/{D}",
                      stubs=["np.log/np.logaddexp -> exact log-domain algebra", "np.max -> fresh m (no fork)"], theory="QF_NRA",
                      timeout_ms=30000)

def make_levelB_replaced(N, tol, ratio, D):
    """sequence on ONE Reweighter/StateManager pair: a reweighting step on pool 1, then the state is replaced in place by a
    different pool with the same number of committed iterations (update_from_dict: the load/resume path), then a second
    reweighting step from beta=0. The second step must be the step a fresh object takes on pool 2 (nothing remembered per
    temperature or per history length may stand in for the new pool)."""
    tolf = Fraction(tol)
    ratio = Fraction(float(Fraction(ratio)))

    def pool(tag, ls):
        st = StateManager(n_dim=1)
        st.update_current({"u": np.zeros((N, 1)), "logl": ls, "beta": 0.0, "logz": LogVal({}) if tag else 0.0})
        st.commit_current_to_history()
        return st

    def harness(ctx: PathCtx):
        l1 = [LogVal.atom(f"l{j}", D) for j in range(N)]
        l2 = [LogVal.atom(f"m{j}", D) for j in range(N)]
        st = pool(True, sarr(l1))
        st._current["beta"] = 0.0
        st._current["iter"] = 1
        rw = rw_mod.Reweighter(state=st, pbar=None, n_particles=1, ess_ratio=float(ratio), volume_variation=None,
                               ESS_TOLERANCE=0.01, BETA_TOLERANCE=float(tolf))
        with patched(rw_mod, np=NpProxy(exact_log=True, overrides={"max": max_model, "isfinite": lambda x: True})), \
                patched(sm_mod, np=NpProxy(exact_log=True)):
            rw.run()
            b1 = SymReal.lift(st._current["beta"]).concrete()
            st.update_from_dict(pool(True, sarr(l2)).to_dict())
            st._current["beta"] = 0.0
            st._current["iter"] = 1
            weights = rw.run()
        bc = SymReal.lift(st._current["beta"]).concrete()
        ctx.notes["beta"] = f"{b1}->{bc}"
        ctx.check("step2:beta-on-dyadic-grid-in[0,1]", z3.BoolVal(bc is not None and 0 <= bc <= 1))
        if bc is None:
            return None
        a = [SymReal(list(l.coef.keys())[0].a, sign="+") for l in l2]
        k = int(bc * D)
        spec = [x ** k if k else SymReal.const(1) for x in a]
        tot = spec[0]
        for x in spec[1:]:
            tot = tot + x
        ctx.check("step2:weights==C04-spec-of-the-new-pool-at-returned-beta", z3.And(*[eq(weights[s_], spec[s_] / tot) for s_ in range(N)]))
        ctx.check("step2:ess==ESS-of-the-new-pool", eq(st._current["ess"], spec_ess(spec)))
        if bc > 0:
            ctx.check("step2:advance=>ESS-of-the-new-pool>=target", le(ratio, spec_ess(spec)))
        return f"{b1}->{bc}"

    def concrete(m):
        l1 = np.array([D * math.log(float(m.get(f"expatom_l{j}", 1))) for j in range(N)])
        l2 = np.array([D * math.log(float(m.get(f"expatom_m{j}", 1))) for j in range(N)])
        st = pool(False, l1)
        st.set_current("beta", 0.0)
        st.set_current("iter", 1)
        rw = rw_mod.Reweighter(state=st, pbar=None, n_particles=1, ess_ratio=float(ratio), volume_variation=None,
                               ESS_TOLERANCE=0.01, BETA_TOLERANCE=float(tolf))
        rw.run()
        st.update_from_dict(pool(False, l2).to_dict())
        st.set_current("beta", 0.0)
        st.set_current("iter", 1)
        w = rw.run()
        fresh = pool(False, l2)
        fresh.set_current("beta", 0.0)
        fresh.set_current("iter", 1)
        rw2 = rw_mod.Reweighter(state=fresh, pbar=None, n_particles=1, ess_ratio=float(ratio), volume_variation=None,
                                ESS_TOLERANCE=0.01, BETA_TOLERANCE=float(tolf))
        rw2.run()
        return st, l1, l2, w, fresh

    def replay(m, label, v):
        for k_, v_ in m.items():
            if k_.startswith("expatom") and not (1e-20 < float(v_) < 1e20):
                return {"reproduced": False, "what": "model outside the double range"}
        st, l1, l2, w, fresh = concrete(m)
        b = st.get_current("beta")
        spec = np.exp(b * l2)
        e = spec.sum() ** 2 / (spec ** 2).sum()
        bad = (not np.allclose(w, spec / spec.sum(), rtol=1e-7)) or (not math.isclose(st.get_current("ess"), e, rel_tol=1e-7)) \
            or (b > 0 and e < float(ratio) * (1 - 1e-9))
        return {"reproduced": bool(bad), "signature": "Reweighter.run:stale-after-pool-replacement",
                "payload": {"logl_1": l1.tolist(), "logl_2": l2.tolist(), "beta": b, "ess": st.get_current("ess"), "weights": np.asarray(w).tolist(),
                            "fresh_beta": fresh.get_current("beta")},
                "what": f"Reweighter.run on pool logl={l1.tolist()}, then update_from_dict(<pool logl={l2.tolist()}, same history length>), then "
                        f"Reweighter.run again from beta=0 (ESS target {float(ratio)}): beta={b}, recorded ess={st.get_current('ess')}, "
                        f"pool ESS at that beta={e}, weights={np.asarray(w).tolist()}; a fresh object on the new pool goes to beta={fresh.get_current('beta')} ({label})"}

    return Obligation(f"B-replaced-pool-N{N}-tol{tol}-ratio{ratio}", harness, replay=replay,
                      encodes=[rw_mod.Reweighter.run, StateManager.compute_logw_and_logz, StateManager.update_from_dict, rw_mod.effective_sample_size],
                      bounds=f"two one-batch pools of N={N} symbolic log-likelihoods each, ESS target {ratio}, BETA_TOLERANCE={tol}, exponent grid 1/{D}; "
                             "step / replace state in place (same history length) / step on one Reweighter",
                      stubs=["np.log/np.logaddexp -> exact log-domain algebra", "np.max -> fresh m (no fork)"], theory="QF_NRA",
                      timeout_ms=30000)


def obligations(tier):
    if tier == "quick":
        return [make_levelA("ess", 2, "1/4"), make_levelA("ess", 2, "1/4", first=True), make_levelA("vol", 2, "1/4"),
                make_levelA_two_steps("vol", 2, "1/2"), make_levelA_two_steps("ess", 2, "1/2"),
                make_levelB(2, "1/4", "3/2", 8), make_levelB(2, "1/2", "5/4", 4), make_levelB_replaced(2, "1/2", "5/4", 4)]
    return [make_levelA("ess", 2, "1/4"), make_levelA("ess", 2, "1/4", first=True), make_levelA("vol", 2, "1/4"),
            make_levelA("ess", 2, "1/16"), make_levelA("ess", 3, "1/8"), make_levelA("vol", 2, "1/8"), make_levelA("vol", 3, "1/4"),
            make_levelB(2, "1/4", "3/2", 8), make_levelB(2, "1/2", "5/4", 4), make_levelB(2, "1/8", "3/2", 16),
            make_levelB(3, "1/4", "2", 8), make_levelB(2, "1/4", "19/10", 8),
            make_levelA_two_steps("vol", 2, "1/2"), make_levelA_two_steps("ess", 2, "1/2"),
            make_levelB_replaced(2, "1/2", "5/4", 4), make_levelB_replaced(2, "1/4", "3/2", 8)]
