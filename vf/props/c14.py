"""C14 - cluster labels and proposal modes stay coherent for every history and cadence."""
from __future__ import annotations

import math
import warnings

import numpy as np
import z3

import tempest.modes as modes_mod
import tempest.mcmc as mcmc
import tempest.steps.train as train_mod
import tempest.steps.resample as resample_mod
import tempest.steps.mutate as mutate_mod
import tempest.tools as tools
from tempest.modes import ModeStatistics
from tempest.state_manager import StateManager

from vf.engine.core import PathCtx, SymBool, HarnessError
from vf.engine.harness import Obligation
from vf.engine.real import SymInt
from vf.engine.arr import NpProxy, RandomStub, patched
from vf.engine.util import integer

PROPERTY_ID = "C14"
ASSUMPTIONS = [
    "the clustering model is a contract double: fit() marks it fitted with K clusters (symbolic, 1..Kmax), predict() returns arbitrary "
    "labels in [0,K) (symbolic) and raises like the real model when it was never fitted; EM/BIC numerics are C15's subject",
    "fit_mvstud is a contract double returning a valid (mean, SPD scale, dof) triple tagged with the member set it was fitted on; "
    "the dof is symbolic finite-or-inf",
    "np.random.choice inside ModeStatistics returns a fixed representative covering every member (the checked clause depends on membership only)",
]


class ClustererDouble:
    def __init__(self, ctx, kmax, normalize=True, script=None):
        self.ctx, self.kmax, self.normalize = ctx, kmax, normalize
        self.fitted = False
        self.K = None
        self.n_fit = 0
        self.n_predict = 0
        self.predict_log = []
        self.script = script  # concrete replay: list of label arrays / K values

    def fit(self, X, sample_weight=None):
        self.n_fit += 1
        self.fitted = True
        if self.script is not None:
            self.K = self.script["K"]
        else:
            self.K = integer(self.ctx, f"K{self.n_fit}", lo=1, hi=self.kmax).resolve(1, self.kmax)
        return self

    def predict(self, X):
        if not self.fitted:
            raise ValueError("Normalization bounds not set. Call fit first." if self.normalize else "model has not been fitted")
        self.n_predict += 1
        n = len(X)
        if self.script is not None:
            lab = np.array(self.script["labels"][self.n_predict - 1][:n], dtype=int)
        else:
            lab = np.array([integer(self.ctx, f"lab{self.n_predict}_{i}", lo=0, hi=self.K - 1).resolve(0, self.K - 1)
                            for i in range(n)], dtype=int)
        self.predict_log.append((np.asarray(X, dtype=float).copy(), lab.copy()))
        return lab


class FitDouble:
    """fit_mvstud double: remembers which points each fitted mode saw; mean encodes the fit number."""

    def __init__(self, ctx=None, inf_dof=None):
        self.fits = []
        self.ctx = ctx
        self.inf_dof = inf_dof

    def __call__(self, data, *a, **k):
        data = np.asarray(data, dtype=float)
        members = frozenset(np.round(data[:, 0], 9).tolist())
        j = len(self.fits)
        self.fits.append(members)
        d = data.shape[1]
        dof = 5.0
        if self.ctx is not None:
            from vf.engine.util import boolean
            if bool(boolean(self.ctx, f"dof_inf{j}")):
                dof = np.inf
        elif self.inf_dof is not None and j < len(self.inf_dof) and self.inf_dof[j]:
            dof = np.inf
        return np.full(d, 0.1 * (j + 1)), 0.01 * np.eye(d), dof


def choice_cover(a, size=None, replace=True, p=None):
    n = a if isinstance(a, (int, np.integer)) else len(a)
    idx = np.arange(size) % n
    return idx if isinstance(a, (int, np.integer)) else np.asarray(a)[idx]


POOL_W = {4: [0.4, 0.3, 0.29, 0.01], 5: [0.3, 0.25, 0.24, 0.2, 0.01], 3: [0.5, 0.49, 0.01]}


def build_state(npool, n_particles, iter_val, d=1):
    st = StateManager(n_dim=d)
    u = (np.arange(1, npool + 1, dtype=float) / (npool + 1)).reshape(npool, 1).repeat(d, axis=1)
    st.update_current({"u": u, "x": u.copy(), "logl": -np.arange(npool, dtype=float), "beta": 0.0, "logz": 0.0})
    st.commit_current_to_history()
    st.update_current({"beta": 0.5})
    st._current["iter"] = iter_val
    return st, u


def make_pipeline(cluster_every, npool, n_particles, kmax, first_iter_range=(1, 7)):
    W = np.array(POOL_W[npool])

    def run(ctx, iter_val, clusterer, fitd, resample_idx):
        st, u = build_state(npool, n_particles, iter_val)
        tr = train_mod.Trainer(state=st, pbar=None, clusterer=clusterer, cluster_every=cluster_every, clustering=True,
                               TRIM_ESS=0.99, TRIM_BINS=50, DOF_FALLBACK=1e6)
        rs = resample_mod.Resampler(st, n_particles=n_particles, resample="mult", clusterer=clusterer, clustering=True)

        class RS:
            @staticmethod
            def choice(a, size=None, replace=True, p=None):
                return resample_idx(a, size)
        with patched(modes_mod, fit_mvstud=fitd, np=NpProxy(random=type("R", (), {"choice": staticmethod(choice_cover)})())), \
                patched(resample_mod, np=NpProxy(random=RS())):
            ms = tr.run(W.copy())
            rs.run(W.copy())
        # observe what the kernel receives: Mutator.run with parallel_mcmc replaced by a recorder
        seen = {}

        def recorder(**kw):
            seen.update(kw)
            n = len(kw["u"])
            return kw["u"], kw["x"], kw["logl"], None, 1.0, 0.5, 1, n
        mut = mutate_mod.Mutator(state=st, prior_transform=lambda v: v, log_likelihood=None, pbar=None, n_particles=n_particles,
                                 n_dim=1, n_steps=1, n_max_steps=1, sampler="tpcn")
        st._current["calls"] = 0
        with patched(mutate_mod, parallel_mcmc=recorder):
            mut.run(ms)
        st._current["assignments_raw"] = st._current["assignments"] if False else None
        raw = np.asarray(st._current["assignments"]).copy()
        return st, u, seen["mode_stats"], np.asarray(seen["assignments"]).copy(), raw

    def harness(ctx: PathCtx):
        it = integer(ctx, "iter", lo=first_iter_range[0], hi=first_iter_range[1])

        class IterVal(int):
            """int subclass so that `iter_val % cluster_every == 0 or iter_val == 0` is decided by the solver."""
            def __new__(cls):
                return int.__new__(cls, 0)

            def __mod__(self, m):
                return it % int(m)

            def __eq__(self, o):
                return it == int(o)

            __hash__ = None
        clusterer = ClustererDouble(ctx, kmax)
        fitd = FitDouble(ctx)

        def resample_idx(a, size):
            out = []
            for j in range(int(size)):
                zi = integer(ctx, f"ridx{j}", lo=0, hi=len(a) - 1)
                out.append(int(a[zi.resolve(0, len(a) - 1)]))
            return np.array(out, dtype=int)
        try:
            st, u, ms, assign, raw = run(ctx, IterVal(), clusterer, fitd, resample_idx)
        except ValueError as e:
            if "fit" in str(e):
                ctx.fail("clusterer-is-fitted-before-predict", f"first annealing iteration with iter % cluster_every != 0: {e}")
                return None
            raise
        ctx.ok("clusterer-is-fitted-before-predict")
        assign = [int(a) for a in assign]
        raw = [int(a) for a in raw]
        # labels of the trimmed training points as the trainer saw them: first predict call after the (re)fit
        X_train, lab_train = clusterer.predict_log[0]
        ok_range = all(0 <= a < ms.K for a in assign)
        ctx.check("every-assignment-refers-to-an-existing-mode", z3.BoolVal(bool(ok_range)),
                  detail={"assignments": assign, "n_modes": int(ms.K), "training_labels": lab_train.tolist()})
        if ok_range:
            good = True
            for a, r in zip(assign, raw):
                members = frozenset(np.round(X_train[lab_train == r, 0], 9).tolist())
                # the mode used for a particle of cluster r must have been fitted on the trimmed points labelled r
                # (a cluster that attracted no training point has no mode of its own: any existing mode is accepted)
                if members and fitd.fits[a] != members:
                    good = False
            ctx.check("mode-was-fitted-on-the-particles-of-that-cluster", z3.BoolVal(bool(good)),
                      detail={"assignments": assign, "training_labels": lab_train.tolist()})
        dof_ok = bool(np.all(np.isfinite(ms.degrees_of_freedom)) and np.all(ms.degrees_of_freedom > 0))
        ctx.check("dof-finite-and-positive", z3.BoolVal(dof_ok))
        spd = all(np.allclose(c, c.T) and np.all(np.linalg.eigvalsh(c) > 0) for c in ms.covariances)
        ctx.check("scale-matrices-spd-and-means-finite", z3.BoolVal(bool(spd and np.all(np.isfinite(ms.means)))))
        return None

    def replay(m, label, v):
        iter_val = int(m["iter"])
        if label == "clusterer-is-fitted-before-predict":
            # cadence clause through the public API with the real clustering model
            from tempest.sampler import Sampler
            s0 = np.random.get_state()
            np.random.seed(0)
            err = None
            try:
                with warnings.catch_warnings():
                    warnings.simplefilter("ignore")
                    smp = Sampler(lambda u_: u_, lambda x: -0.5 * np.sum(((x - 0.5) / 0.1) ** 2, axis=1), n_dim=2, n_particles=32,
                                  vectorize=True, clustering=True, cluster_every=cluster_every, random_state=0)
                    smp._core._initialize_fresh()
                    for _ in range(12):
                        smp.sample()
                        if smp.state.get_current("beta") >= 1.0:
                            break
            except ValueError as e:
                err = e
            finally:
                np.random.set_state(s0)
            return {"reproduced": err is not None and "fit" in str(err), "signature": "cadence:predict-before-fit",
                    "payload": {"cluster_every": cluster_every}, "what": f"Sampler(clustering=True, cluster_every={cluster_every}).sample() raised: {err}"}
        # label clause: real Trainer / Resampler / ModeStatistics / kernel with a scripted clusterer
        K = int(m.get("K1", 1))
        labels = []
        p = 1
        while f"lab{p}_0" in m:
            row, i = [], 0
            while f"lab{p}_{i}" in m:
                row.append(int(m[f"lab{p}_{i}"]))
                i += 1
            labels.append(row + [row[-1]] * 8)
            p += 1
        ridx = [int(m[f"ridx{j}"]) for j in range(n_particles) if f"ridx{j}" in m]
        clusterer = ClustererDouble(None, kmax, script={"K": K, "labels": labels})
        inf = [bool(m.get(f"dof_inf{j}", False)) for j in range(8)]
        fitd = FitDouble(None, inf_dof=inf)
        st, u, ms, assign, raw = run(None, iter_val if iter_val % cluster_every == 0 else cluster_every, clusterer, fitd,
                                     lambda a, size: np.array([int(a[i]) for i in ridx[: int(size)]], dtype=int))
        why = None
        try:
            s0 = np.random.get_state()
            np.random.seed(1)
            mcmc.parallel_mcmc(u=st.get_current("u"), x=st.get_current("x"), logl=st.get_current("logl"), blobs=None,
                               assignments=assign, beta=0.5, mode_stats=ms, log_likelihood=lambda x: (-np.sum(x ** 2, axis=1), None),
                               prior_transform=lambda uu: uu, n_steps=1, n_max=1, sample="tpcn", verbose=False)
            np.random.set_state(s0)
        except IndexError as e:
            why = f"kernel raised IndexError: {e}"
        X_train, lab_train = clusterer.predict_log[0]
        if why is None:
            for a, r in zip(assign, raw):
                mem = frozenset(np.round(X_train[lab_train == r, 0], 9).tolist())
                if not (0 <= a < ms.K):
                    why = f"assignment {a} has no mode (K={ms.K})"
                elif mem and fitd.fits[a] != mem:
                    why = f"a particle of cluster {r} is moved with a mode fitted on the particles of another cluster"
        if why is None and label == "dof-finite-and-positive":
            why = None if np.all(np.isfinite(ms.degrees_of_freedom)) else "non-finite dof reached the kernel"
        return {"reproduced": why is not None, "signature": "labels:rank-vs-raw-label",
                "payload": {"training_labels": lab_train.tolist(), "assignments": np.asarray(assign).tolist(), "n_modes": int(ms.K)},
                "what": f"training labels {lab_train.tolist()} (K={K} fitted clusters), active assignments {np.asarray(assign).tolist()}, "
                        f"{int(ms.K)} modes: {why}"}

    return Obligation(f"pipeline-every{cluster_every}-pool{npool}-n{n_particles}-K{kmax}", harness, replay=replay,
                      encodes=[train_mod.Trainer.run, resample_mod.Resampler.run, ModeStatistics.from_particles, ModeStatistics.__init__],
                      bounds=f"cluster_every={cluster_every}, symbolic first annealing iteration index in {list(first_iter_range)}, pool of {npool} points "
                             f"(one trimmed away), {n_particles} active particles, K <= {kmax} fitted clusters, every label pattern and resampling index",
                      stubs=["clusterer -> contract double", "fit_mvstud -> tagged contract double", "np.random.choice -> symbolic indices / covering representative"],
                      theory="QF_LIA", max_paths=60000, max_decisions=400)


def make_global(npool):
    """clustering disabled: one global mode, all assignments 0, dof fallback applied."""
    W = np.array(POOL_W[npool])

    def harness(ctx: PathCtx):
        st, u = build_state(npool, 2, 3)
        fitd = FitDouble(ctx)
        tr = train_mod.Trainer(state=st, pbar=None, clusterer=None, cluster_every=1, clustering=False, TRIM_ESS=0.99, TRIM_BINS=50,
                               DOF_FALLBACK=1e6)
        rs = resample_mod.Resampler(st, n_particles=2, resample="syst", clusterer=None, clustering=False)
        with patched(modes_mod, fit_mvstud=fitd, np=NpProxy(random=type("R", (), {"choice": staticmethod(choice_cover)})())):
            ms = tr.run(W.copy())
        rs.run(W.copy())
        a = st._current["assignments"]
        ctx.check("single-mode-and-zero-assignments", z3.BoolVal(ms.K == 1 and list(a) == [0, 0]))
        ctx.check("dof-finite-and-positive", z3.BoolVal(bool(np.all(np.isfinite(ms.degrees_of_freedom)) and np.all(ms.degrees_of_freedom > 0))))
        return None

    return Obligation(f"global-pool{npool}", harness, replay=None, encodes=[train_mod.Trainer.run, ModeStatistics.from_global],
                      bounds=f"clustering off, pool {npool}, symbolic finite/inf dof from the fit", theory="QF_LIA")


def obligations(tier):
    obs = [make_pipeline(1, 4, 2, 2), make_pipeline(3, 4, 1, 2), make_pipeline(5, 3, 1, 2), make_global(4)]
    if tier == "thorough":
        obs += [make_pipeline(1, 5, 2, 3), make_pipeline(2, 4, 2, 2), make_pipeline(7, 4, 1, 2, first_iter_range=(1, 15))]
    return obs
