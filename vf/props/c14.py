"""C14 - cluster labels and proposal modes stay coherent for every history and cadence."""
from __future__ import annotations

import math
import warnings

import numpy as np
import z3

import tempest.modes as modes_mod
import tempest.mcmc as mcmc
import tempest.steps.train as train_mod
import tempest.steps.resample as resample_mod
import tempest.steps.mutate as mutate_mod
import tempest.tools as tools
from tempest.modes import ModeStatistics
from tempest.state_manager import StateManager

from vf.engine.core import PathCtx, SymBool, HarnessError
from vf.engine.harness import Obligation
from vf.engine.real import SymInt
from vf.engine.arr import NpProxy, RandomStub, patched
from vf.engine.util import integer

PROPERTY_ID = "C14"
ASSUMPTIONS = [
    "the clustering model is a contract double: fit() marks it fitted with K clusters (symbolic, 1..Kmax), predict() returns arbitrary "
    "labels in [0,K) (symbolic) and raises like the real model when it was never fitted; EM/BIC numerics are C15's subject",
    "fit_mvstud is a contract double returning a valid (mean, SPD scale, dof) triple tagged with the member set it was fitted on; "
    "the dof is symbolic finite-or-inf",
    "np.random.choice inside ModeStatistics returns a fixed representative covering every member (the checked clause depends on membership only)",
]


class ClustererDouble:
    def __init__(self, ctx, kmax, normalize=True, script=None):
        self.ctx, self.kmax, self.normalize = ctx, kmax, normalize
        self.fitted = False
        self.K = None
        self.n_fit = 0
        self.n_predict = 0
        self.predict_log = []
        self.script = script  # concrete replay: list of label arrays / K values
        self.label_of = {}  # predict is a (deterministic) function of the point: one label per distinct point

    def fit(self, X, sample_weight=None):
        self.n_fit += 1
        self.fitted = True
        self.label_of = {}
        self._X_fit = np.asarray(X, dtype=float).copy()
        self._hard = None
        if self.script is not None:
            self.K = self.script["K"]
        else:
            self.K = integer(self.ctx, f"K{self.n_fit}", lo=1, hi=self.kmax).resolve(1, self.kmax)
        return self

    @property
    def labels_(self):
        """hard labels of the training points produced by the fit itself: in [0,K), but *not* necessarily what predict() says for
        the same points (boundary points of overlapping clusters differ in the real model). Forked lazily, only if the code reads them."""
        if not self.fitted:
            raise AttributeError("labels_")
        if self._hard is None:
            n = len(self._X_fit)
            if self.script is not None:
                f = self.script.get("hard_labels", self.script.get("by_point"))
                self._hard = np.array([f(self._X_fit[i]) for i in range(n)], dtype=int)
            else:
                self._hard = np.array([integer(self.ctx, f"hard{self.n_fit}_{i}", lo=0, hi=self.K - 1).resolve(0, self.K - 1) for i in range(n)], dtype=int)
        return self._hard

    def predict(self, X):
        if not self.fitted:
            raise ValueError("Normalization bounds not set. Call fit first." if self.normalize else "model has not been fitted")
        self.n_predict += 1
        n = len(X)
        if self.script is not None and "by_point" in self.script:
            lab = np.array([self.script["by_point"](X[i]) for i in range(n)], dtype=int)
        elif self.script is not None:
            lab = np.array(self.script["labels"][self.n_predict - 1][:n], dtype=int)
        else:
            lab = np.array([self.label_for(X[i]) for i in range(n)], dtype=int)
        self.predict_log.append((np.asarray(X, dtype=float).copy(), lab.copy()))
        return lab

    def label_for(self, x):
        """the label predict() gives to point x (a function of the point; forked on first use)."""
        if self.script is not None and "by_point" in self.script:
            return int(self.script["by_point"](x))
        key = tuple(np.round(np.asarray(x, dtype=float), 9).tolist())
        if key not in self.label_of:
            self.label_of[key] = integer(self.ctx, f"lab{self.n_fit}_{len(self.label_of)}", lo=0, hi=self.K - 1).resolve(0, self.K - 1)
        return self.label_of[key]

    def training_labels(self):
        """(training points of the last fit, the labels predict() assigns to them) - the reference partition of the clause
        'fitted from the particles of that same cluster'."""
        X = self._X_fit
        return X, np.array([self.label_for(X[i]) for i in range(len(X))], dtype=int)


class FitDouble:
    """fit_mvstud double: remembers which points each fitted mode saw; mean encodes the fit number."""

    def __init__(self, ctx=None, inf_dof=None, strict=False):
        self.fits = []
        self.returned = []
        self.ctx = ctx
        self.inf_dof = inf_dof
        self.strict = strict  # enforce the precondition of the real fit: at least d + 1 distinct points

    def __call__(self, data, *a, **k):
        data = np.asarray(data, dtype=float)
        members = frozenset(np.round(data[:, 0], 9).tolist())
        if self.strict and len({tuple(np.round(r, 12)) for r in data}) < data.shape[1] + 1:
            # the real fit_mvstud solves with the sample covariance, which is singular for <= d distinct points
            raise np.linalg.LinAlgError("Singular matrix")
        j = len(self.fits)
        self.fits.append(members)
        d = data.shape[1]
        dof = 5.0
        if self.ctx is not None:
            from vf.engine.util import boolean
            if bool(boolean(self.ctx, f"dof_inf{j}")):
                dof = np.inf
        elif self.inf_dof is not None and j < len(self.inf_dof) and self.inf_dof[j]:
            dof = np.inf
        self.returned.append((j, dof))
        return np.full(d, 0.1 * (j + 1)), 0.01 * np.eye(d), dof


def choice_cover(a, size=None, replace=True, p=None):
    n = a if isinstance(a, (int, np.integer)) else len(a)
    idx = np.arange(size) % n
    return idx if isinstance(a, (int, np.integer)) else np.asarray(a)[idx]


POOL_W = {4: [0.34, 0.33, 0.3299, 0.0001], 5: [0.26, 0.25, 0.25, 0.2399, 0.0001], 3: [0.5, 0.4999, 0.0001]}  # the last point is trimmed away


def build_state(npool, n_particles, iter_val, d=1, last_beta=0.0, beta_cur=0.5):
    st = StateManager(n_dim=d)
    u = (np.arange(1, npool + 1, dtype=float) / (npool + 1)).reshape(npool, 1).repeat(d, axis=1)
    st.update_current({"u": u, "x": u.copy(), "logl": -np.arange(npool, dtype=float), "beta": last_beta, "logz": 0.0})
    st.commit_current_to_history()
    # the active particles left by the previous iteration (n_particles rows; the resampling step normally replaces them)
    st.update_current({"beta": beta_cur, "u": u[:n_particles].copy(), "x": u[:n_particles].copy(), "logl": -np.arange(n_particles, dtype=float)})
    st._current["iter"] = iter_val
    return st, u


def make_pipeline(cluster_every, npool, n_particles, kmax, first_iter_range=(1, 7), resumed=False, beta_cur=0.5):
    """resumed=True: the steps are new objects (as after a resume from a checkpoint) but the restored history already ends in an
    annealing iteration (beta > 0) - the clustering model has still never been fitted in this process."""
    W = np.array(POOL_W[npool])

    def run(ctx, iter_val, clusterer, fitd, resample_idx):
        st, u = build_state(npool, n_particles, iter_val, last_beta=(min(0.25, beta_cur / 2) if resumed else 0.0), beta_cur=beta_cur)
        tr = train_mod.Trainer(state=st, pbar=None, clusterer=clusterer, cluster_every=cluster_every, clustering=True,
                               TRIM_ESS=0.99, TRIM_BINS=50, DOF_FALLBACK=1e6)
        rs = resample_mod.Resampler(st, n_particles=n_particles, resample="mult", clusterer=clusterer, clustering=True)

        class RS:
            @staticmethod
            def choice(a, size=None, replace=True, p=None):
                return resample_idx(a, size)
        with patched(modes_mod, fit_mvstud=fitd, np=NpProxy(random=type("R", (), {"choice": staticmethod(choice_cover)})())), \
                patched(resample_mod, np=NpProxy(random=RS())):
            ms = tr.run(W.copy())
            rs.run(W.copy())
        # observe what the kernel receives: Mutator.run with parallel_mcmc replaced by a recorder
        seen = {}

        def recorder(**kw):
            seen.update(kw)
            n = len(kw["u"])
            return kw["u"], kw["x"], kw["logl"], None, 1.0, 0.5, 1, n
        mut = mutate_mod.Mutator(state=st, prior_transform=lambda v: v, log_likelihood=None, pbar=None, n_particles=n_particles,
                                 n_dim=1, n_steps=1, n_max_steps=1, sampler="tpcn")
        st._current["calls"] = 0
        with patched(mutate_mod, parallel_mcmc=recorder):
            mut.run(ms)
        st._current["assignments_raw"] = st._current["assignments"] if False else None
        raw = np.asarray(st._current["assignments"]).copy()
        return st, u, seen["mode_stats"], np.asarray(seen["assignments"]).copy(), raw

    def harness(ctx: PathCtx):
        it = integer(ctx, "iter", lo=first_iter_range[0], hi=first_iter_range[1])

        class IterVal(int):
            """int subclass so that `iter_val % cluster_every == 0 or iter_val == 0` is decided by the solver."""
            def __new__(cls):
                return int.__new__(cls, 0)

            def __mod__(self, m):
                return it % int(m)

            def __eq__(self, o):
                return it == int(o)

            __hash__ = None
        clusterer = ClustererDouble(ctx, kmax)
        fitd = FitDouble(ctx)

        def resample_idx(a, size):
            out = []
            for j in range(int(size)):
                zi = integer(ctx, f"ridx{j}", lo=0, hi=len(a) - 1)
                out.append(int(a[zi.resolve(0, len(a) - 1)]))
            return np.array(out, dtype=int)
        try:
            st, u, ms, assign, raw = run(ctx, IterVal(), clusterer, fitd, resample_idx)
        except ValueError as e:
            if "fit" in str(e):
                ctx.fail("clusterer-is-fitted-before-predict", f"first annealing iteration with iter % cluster_every != 0: {e}")
                return None
            raise
        ctx.ok("clusterer-is-fitted-before-predict")
        assign = [int(a) for a in assign]
        raw = [int(a) for a in raw]
        # labels of the trimmed training points as the trainer saw them: first predict call after the (re)fit
        X_train, lab_train = clusterer.training_labels()
        ok_range = all(0 <= a < ms.K for a in assign)
        ctx.check("every-assignment-refers-to-an-existing-mode", z3.BoolVal(bool(ok_range)),
                  detail={"assignments": assign, "n_modes": int(ms.K), "training_labels": lab_train.tolist()})
        if ok_range:
            good = True
            for a, r in zip(assign, raw):
                members = frozenset(np.round(X_train[lab_train == r, 0], 9).tolist())
                # the mode used for a particle of cluster r must have been fitted on the trimmed points labelled r
                # (a cluster that attracted no training point has no mode of its own: any existing mode is accepted)
                if members and fitd.fits[a] != members:
                    good = False
            ctx.check("mode-was-fitted-on-the-particles-of-that-cluster", z3.BoolVal(bool(good)),
                      detail={"assignments": assign, "training_labels": lab_train.tolist()})
        # each active particle carries the label the model predicts for *its own* position
        own = [clusterer.label_of.get(tuple(np.round(np.asarray(st._current["u"][k], dtype=float), 9).tolist())) for k in range(len(raw))]
        ctx.check("assignment-is-the-predicted-label-of-that-particle", z3.BoolVal(all(o is not None and o == r for o, r in zip(own, raw))),
                  detail={"raw": raw, "predicted_for_own_position": own})
        dof_ok = bool(np.all(np.isfinite(ms.degrees_of_freedom)) and np.all(ms.degrees_of_freedom > 0))
        ctx.check("dof-finite-and-positive", z3.BoolVal(dof_ok))
        spd = all(np.allclose(c, c.T) and np.all(np.linalg.eigvalsh(c) > 0) for c in ms.covariances)
        ctx.check("scale-matrices-spd-and-means-finite", z3.BoolVal(bool(spd and np.all(np.isfinite(ms.means)))))
        return None

    def replay(m, label, v):
        iter_val = int(m["iter"])
        if label == "clusterer-is-fitted-before-predict":
            # cadence clause through the public API with the real clustering model
            from tempest.sampler import Sampler
            s0 = np.random.get_state()
            np.random.seed(0)
            err = None
            try:
                with warnings.catch_warnings():
                    warnings.simplefilter("ignore")
                    smp = Sampler(lambda u_: u_, lambda x: -0.5 * np.sum(((x - 0.5) / 0.1) ** 2, axis=1), n_dim=2, n_particles=32,
                                  vectorize=True, clustering=True, cluster_every=cluster_every, random_state=0)
                    smp._core._initialize_fresh()
                    for _ in range(12):
                        smp.sample()
                        if smp.state.get_current("beta") >= 1.0:
                            break
                    if resumed and smp.state.get_current("beta") < 1.0:
                        raise RuntimeError("demo run did not finish")
                    if resumed:
                        # public API: checkpoint at an annealing iteration, resume in a new sampler
                        import tempfile, shutil
                        from pathlib import Path
                        tmp = tempfile.mkdtemp(prefix="vf_c14_")
                        try:
                            mk = lambda: Sampler(lambda u_: u_, lambda x: -0.5 * np.sum(((x - 0.5) / 0.1) ** 2, axis=1), n_dim=2, n_particles=32,
                                                 vectorize=True, clustering=True, cluster_every=cluster_every, random_state=0, output_dir=tmp)
                            a = mk()
                            a._core._initialize_fresh()
                            saved = []
                            for k_ in range(12):
                                a.sample()
                                if 0.0 < a.state.get_current("beta") < 1.0:
                                    a.save_state(Path(tmp) / f"ck_{k_}.state")
                                    saved.append(Path(tmp) / f"ck_{k_}.state")
                                if a.state.get_current("beta") >= 1.0:
                                    break
                            for ck in saved:
                                b = mk()
                                b._core._initialize_from_resume(ck)
                                b.sample(t0=b._core.t0)
                        finally:
                            shutil.rmtree(tmp, ignore_errors=True)
            except ValueError as e:
                err = e
            finally:
                np.random.set_state(s0)
            if resumed:
                return {"reproduced": err is not None and "fit" in str(err), "signature": "cadence:predict-before-fit-after-resume",
                        "payload": {"cluster_every": cluster_every},
                        "what": f"Sampler(clustering=True, cluster_every={cluster_every}): resuming a checkpoint written during annealing and calling sample() raised: {err}"}
            return {"reproduced": err is not None and "fit" in str(err), "signature": "cadence:predict-before-fit",
                    "payload": {"cluster_every": cluster_every}, "what": f"Sampler(clustering=True, cluster_every={cluster_every}).sample() raised: {err}"}
        # label clauses: real Trainer / Resampler / Mutator / ModeStatistics / kernel with scripted *functional* clusterers
        scenarios = {
            "two-clusters-unsorted-duplicates": (lambda x: int(float(np.asarray(x).ravel()[0]) > 0.5), lambda a, size: [int(a[-1]), int(a[0]), int(a[-1]), int(a[1])]),
            "only-label-1-occurs": (lambda x: 1, lambda a, size: [int(a[0]), int(a[1]), int(a[0]), int(a[1])]),
            "cluster-without-training-points": (lambda x: int(float(np.asarray(x).ravel()[0]) > 0.79), lambda a, size: [int(a[-1]), int(a[0]), int(a[-1]), int(a[0])]),
            "hard-fit-labels-differ-from-predict-on-a-boundary-point": (lambda x: int(float(np.asarray(x).ravel()[0]) > 0.5), lambda a, size: [int(a[1]), int(a[0]), int(a[1]), int(a[2])]),
        }
        problems = []
        for name, (by_point, pick) in scenarios.items():
            script = {"K": 2, "by_point": by_point}
            if name.startswith("hard-fit-labels"):
                script["hard_labels"] = lambda x: int(float(np.asarray(x).ravel()[0]) > 0.3)
            c2 = ClustererDouble(None, kmax, script=script)
            f2 = FitDouble(None, inf_dof=[bool(m.get(f"dof_inf{j}", False)) for j in range(8)])
            try:
                st2, u2, ms2, a2, raw2 = run(None, cluster_every, c2, f2, lambda a, size, pick=pick: np.array(pick(a, size)[: int(size)], dtype=int))
            except Exception as e:
                problems.append((name, f"pipeline raised {type(e).__name__}: {e}"))
                continue
            own = [by_point(v) for v in st2.get_current("u")]
            if list(map(int, raw2)) != own:
                problems.append((name, f"assignments {list(map(int, raw2))} are not the labels {own} predicted for those particles"))
            X_train, lab_train = c2.training_labels()
            for a_, r_ in zip(a2, raw2):
                mem = frozenset(np.round(X_train[lab_train == r_, 0], 9).tolist())
                if not (0 <= a_ < ms2.K):
                    problems.append((name, f"assignment {int(a_)} has no mode (K={ms2.K})"))
                elif mem and f2.fits[int(a_)] != mem:
                    problems.append((name, f"a particle of cluster {int(r_)} is moved with a mode fitted on another cluster"))
            if not (np.all(np.isfinite(ms2.degrees_of_freedom)) and np.all(ms2.degrees_of_freedom > 0)):
                problems.append((name, "non-finite dof reached the kernel"))
            try:
                s0 = np.random.get_state()
                np.random.seed(1)
                mcmc.parallel_mcmc(u=st2.get_current("u"), x=st2.get_current("x"), logl=st2.get_current("logl"), blobs=None, assignments=np.asarray(a2),
                                   beta=0.5, mode_stats=ms2, log_likelihood=lambda x: (-np.sum(x ** 2, axis=1), None), prior_transform=lambda uu: uu,
                                   n_steps=1, n_max=1, sample="tpcn", verbose=False)
                np.random.set_state(s0)
            except IndexError as e:
                problems.append((name, f"kernel raised IndexError: {e}"))
        return {"reproduced": bool(problems), "signature": "labels:" + (problems[0][1].split(" ")[0] + "-" + problems[0][0] if problems else label),
                "payload": {"problems": problems[:6]},
                "what": "real Trainer/Resampler/Mutator with a scripted functional clusterer: " + "; ".join(f"[{n_}] {w_}" for n_, w_ in problems[:3])}

    return Obligation(f"pipeline-every{cluster_every}-pool{npool}-n{n_particles}-K{kmax}" + ("-resumed" if resumed else "") + (f"-beta{beta_cur:g}" if beta_cur != 0.5 else ""), harness, replay=replay,
                      encodes=[train_mod.Trainer.run, resample_mod.Resampler.run, ModeStatistics.from_particles, ModeStatistics.__init__],
                      bounds=f"cluster_every={cluster_every}, symbolic first annealing iteration index in {list(first_iter_range)}, pool of {npool} points "
                             f"(one trimmed away), {n_particles} active particles, K <= {kmax} fitted clusters, every label pattern and resampling index",
                      stubs=["clusterer -> contract double", "fit_mvstud -> tagged contract double", "np.random.choice -> symbolic indices / covering representative"],
                      theory="QF_LIA", max_paths=60000, max_decisions=400)


def make_two_iterations(cluster_every, npool, kmax, first_iter=3):
    """two consecutive annealing iterations on the same step objects (Trainer, Resampler, Mutator, clustering model): the first one
    fits the model, the second one either refits (cluster_every divides the iteration number) or reuses it on the grown pool. The
    label/mode coherence clauses must hold in the second iteration as well - nothing remembered from the first may stand in for it."""
    n_particles = 1
    W1, W2 = np.array(POOL_W[npool]), np.array(POOL_W[npool + n_particles])

    def verdicts(clusterer, fitd, pick):
        """both iterations on the real steps; pick(round, j, a) -> index into `a` chosen by the resampler; returns (label, ok, detail)."""
        out = []
        st, u = build_state(npool, n_particles, first_iter)
        tr = train_mod.Trainer(state=st, pbar=None, clusterer=clusterer, cluster_every=cluster_every, clustering=True, TRIM_ESS=0.99, TRIM_BINS=50, DOF_FALLBACK=1e6)
        rs = resample_mod.Resampler(st, n_particles=n_particles, resample="mult", clusterer=clusterer, clustering=True)
        mut = mutate_mod.Mutator(state=st, prior_transform=lambda v: v, log_likelihood=None, pbar=None, n_particles=n_particles, n_dim=1, n_steps=1, n_max_steps=1, sampler="tpcn")
        st._current["calls"] = 0
        for round_, W in enumerate((W1, W2)):
            tag = f"iteration-{round_ + 1}:"
            st._current["iter"] = first_iter + round_
            n_fits_before = len(fitd.fits)
            fits_before_model = clusterer.n_fit

            class RS:
                @staticmethod
                def choice(a, size=None, replace=True, p=None, r_=round_):
                    return np.array([int(a[pick(r_, j, a)]) for j in range(int(size))], dtype=int)
            seen = {}

            def recorder(**kw):
                seen.update(kw)
                n = len(kw["u"])
                return kw["u"], kw["x"], kw["logl"], None, 1.0, 0.5, 1, n
            try:
                with patched(modes_mod, fit_mvstud=fitd, np=NpProxy(random=type("R", (), {"choice": staticmethod(choice_cover)})())), \
                        patched(resample_mod, np=NpProxy(random=RS())), patched(mutate_mod, parallel_mcmc=recorder):
                    ms = tr.run(W.copy())
                    rs.run(W.copy())
                    mut.run(ms)
            except (ValueError, IndexError) as e:
                out.append((tag + "steps-complete", False, f"{type(e).__name__}: {e}"))
                return out
            out.append((tag + "steps-complete", True, None))
            refit_expected = round_ == 0 or (first_iter + round_) % cluster_every == 0
            out.append((tag + "model-refitted-exactly-when-the-cadence-says-so", (clusterer.n_fit > fits_before_model) == refit_expected, {"fits_of_the_clustering_model": clusterer.n_fit}))
            ms_k = seen["mode_stats"]
            assign = [int(a) for a in np.asarray(seen["assignments"])]
            raw = [int(a) for a in np.asarray(st._current["assignments"])]
            hist_u = st.get_history("u", flat=True)
            trim_idx, _ = tools.trim_weights(np.arange(len(W)), W.copy(), ess=0.99, bins=50)
            X_train = np.asarray(hist_u, dtype=float)[trim_idx]
            lab_train = np.array([clusterer.label_for(X_train[i]) for i in range(len(X_train))], dtype=int)
            ok_range = all(0 <= a < ms_k.K for a in assign)
            out.append((tag + "every-assignment-refers-to-an-existing-mode", bool(ok_range), {"assignments": assign, "n_modes": int(ms_k.K)}))
            if ok_range:
                # the fit double tags every fit through its mean (0.1 * (fit number + 1)): identify the fit behind the mode that is used and
                # require that it saw only points which the model in force assigns to the particle's cluster (a mode kept from an earlier
                # iteration is fine as long as that is true; one fitted on another cluster, or on nothing, is not)
                good, why = True, None
                for a, r in zip(assign, raw):
                    j = int(round(float(np.asarray(ms_k.means[a]).ravel()[0]) / 0.1)) - 1
                    members = fitd.fits[j] if 0 <= j < len(fitd.fits) else frozenset()
                    cluster_now = frozenset(np.round(X_train[lab_train == r, 0], 9).tolist())
                    labels_of_members = {clusterer.label_for(np.array([x_])) for x_ in members}
                    if cluster_now and (not members or labels_of_members != {r}):
                        good, why = False, {"particle_label": r, "mode_fitted_on": sorted(members), "labels_of_those_points": sorted(labels_of_members)}
                out.append((tag + "mode-was-fitted-on-particles-of-that-cluster", bool(good), why))
            own = [clusterer.label_for(st._current["u"][k]) for k in range(len(raw))]
            out.append((tag + "assignment-is-the-predicted-label-of-that-particle", own == raw, {"raw": raw, "predicted": own}))
            st.commit_current_to_history()
        return out

    def harness(ctx: PathCtx):
        def pick(r_, j, a):
            zi = integer(ctx, f"ridx{r_}_{j}", lo=0, hi=len(a) - 1)
            return zi.resolve(0, len(a) - 1)
        for label, ok, detail in verdicts(ClustererDouble(ctx, kmax), FitDouble(ctx), pick):
            ctx.check(label, z3.BoolVal(bool(ok)), detail=detail)
        return None

    def replay(m, label, v):
        """real steps with scripted functional clusterers and the model's resampling indices"""
        problems = []
        for name, by_point in (("two-clusters", lambda x: int(float(np.asarray(x).ravel()[0]) > 0.5)), ("only-label-1", lambda x: 1),
                               ("three-way", lambda x: min(kmax - 1, int(float(np.asarray(x).ravel()[0]) * 3))), ("labels-swap-on-refit", None)):
            c2 = ClustererDouble(None, kmax, script={"K": kmax, "by_point": by_point})
            if name == "labels-swap-on-refit":
                # a refit may number the clusters differently: the same partition, labels exchanged at every second fit
                c2.script["by_point"] = lambda x, c2=c2: int(float(np.asarray(x).ravel()[0]) > 0.3) ^ (1 if c2.n_fit % 2 == 0 else 0)
            f2 = FitDouble(None, inf_dof=[False] * 16)
            try:
                res = verdicts(c2, f2, lambda r_, j, a: min(len(a) - 1, int(m.get(f"ridx{r_}_{j}", len(a) - 1))))
            except Exception as e:
                res = [("steps-complete", False, f"{type(e).__name__}: {e}")]
            problems += [(name, l_, d_) for l_, ok, d_ in res if not ok]
        return {"reproduced": bool(problems), "signature": "two-iterations:" + (problems[0][1] if problems else label), "payload": {"problems": [(n_, l_, str(d_)[:200]) for n_, l_, d_ in problems[:4]]},
                "what": "real Trainer/Resampler/Mutator over two consecutive iterations with a scripted functional clusterer: " + "; ".join(f"[{n_}] {l_}: {d_}" for n_, l_, d_ in problems[:2])}

    return Obligation(f"two-iterations-every{cluster_every}-pool{npool}-K{kmax}", harness, replay=replay,
                      encodes=[train_mod.Trainer.run, resample_mod.Resampler.run, mutate_mod.Mutator.run, ModeStatistics.from_particles],
                      bounds=f"cluster_every={cluster_every}, iterations {first_iter} and {first_iter + 1}, pool of {npool} then {npool + 1} points, 1 active particle, K <= {kmax}, "
                             "every label pattern and resampling index in both iterations",
                      stubs=["clusterer -> contract double", "fit_mvstud -> tagged contract double", "np.random.choice -> symbolic indices / covering representative",
                             "parallel_mcmc -> recorder (identity move)"], theory="QF_LIA", max_paths=60000, max_decisions=400)


def make_completes(cluster_every, npool, kmax):
    """C18's running clause on the training/resampling/mutation steps: with valid options the steps must not raise, whatever partition
    of the pool the clustering model predicts. The fit double enforces the precondition of the real `fit_mvstud` (at least d + 1
    distinct points; the real code raises `LinAlgError: Singular matrix` otherwise)."""
    n_particles = 1
    W = np.array(POOL_W[npool])

    def harness(ctx: PathCtx):
        clusterer = ClustererDouble(ctx, kmax)
        fitd = FitDouble(ctx, strict=True)
        st, u = build_state(npool, n_particles, 2)
        tr = train_mod.Trainer(state=st, pbar=None, clusterer=clusterer, cluster_every=cluster_every, clustering=True, TRIM_ESS=0.99, TRIM_BINS=50, DOF_FALLBACK=1e6)
        try:
            with patched(modes_mod, fit_mvstud=fitd, np=NpProxy(random=type("R", (), {"choice": staticmethod(choice_cover)})())):
                tr.run(W.copy())
        except np.linalg.LinAlgError as e:
            X, lab = clusterer.training_labels()
            ctx.fail("training-step-completes-for-every-partition-of-the-pool", f"LinAlgError: {e}; training labels {lab.tolist()} (a cluster with a single distinct point)")
            return None
        ctx.ok("training-step-completes-for-every-partition-of-the-pool")
        return None

    def replay(m, label, v):
        """real Trainer, real ModeStatistics, real fit_mvstud; scripted clusterer that isolates one pool point"""
        st, u = build_state(npool, n_particles, 2, d=2)
        c2 = ClustererDouble(None, kmax, script={"K": 2, "by_point": lambda x: int(float(np.asarray(x).ravel()[0]) < 0.3)})
        tr = train_mod.Trainer(state=st, pbar=None, clusterer=c2, cluster_every=cluster_every, clustering=True, TRIM_ESS=0.99, TRIM_BINS=50, DOF_FALLBACK=1e6)
        s0 = np.random.get_state()
        np.random.seed(0)
        err = None
        try:
            with warnings.catch_warnings():
                warnings.simplefilter("ignore")
                tr.run(W.copy())
        except Exception as e:
            err = e
        finally:
            np.random.set_state(s0)
        return {"reproduced": isinstance(err, np.linalg.LinAlgError), "signature": "Trainer.run:degenerate-cluster:LinAlgError", "payload": {"pool": u.tolist(), "error": repr(err)},
                "what": f"Trainer.run on a pool of {npool} points of which the clustering model puts one into a cluster of its own: " +
                        (f"raised {type(err).__name__}: {err} (the sampler run stops; seen in practice with a likelihood that is zero on 93% of the prior, 32 particles)" if err is not None else "completed")}

    return Obligation(f"steps-complete-every{cluster_every}-pool{npool}-K{kmax}", harness, replay=replay,
                      encodes=[train_mod.Trainer.run, ModeStatistics.from_particles],
                      bounds=f"pool of {npool} points (one trimmed away), K <= {kmax} clusters, every label pattern",
                      stubs=["clusterer -> contract double", "fit_mvstud -> contract double that enforces the real precondition (>= d+1 distinct points)", "np.random.choice -> covering representative"],
                      theory="QF_LIA", max_paths=20000, max_decisions=400)


def make_global(npool):
    """clustering disabled: one global mode, all assignments 0, dof fallback applied."""
    W = np.array(POOL_W[npool])

    def harness(ctx: PathCtx):
        st, u = build_state(npool, 2, 3)
        fitd = FitDouble(ctx)
        tr = train_mod.Trainer(state=st, pbar=None, clusterer=None, cluster_every=1, clustering=False, TRIM_ESS=0.99, TRIM_BINS=50,
                               DOF_FALLBACK=1e6)
        rs = resample_mod.Resampler(st, n_particles=2, resample="syst", clusterer=None, clustering=False)
        with patched(modes_mod, fit_mvstud=fitd, np=NpProxy(random=type("R", (), {"choice": staticmethod(choice_cover)})())):
            ms = tr.run(W.copy())
        rs.run(W.copy())
        a = st._current["assignments"]
        ctx.check("single-mode-and-zero-assignments", z3.BoolVal(ms.K == 1 and list(a) == [0, 0]))
        ctx.check("dof-finite-and-positive", z3.BoolVal(bool(np.all(np.isfinite(ms.degrees_of_freedom)) and np.all(ms.degrees_of_freedom > 0))))
        return None

    return Obligation(f"global-pool{npool}", harness, replay=None, encodes=[train_mod.Trainer.run, ModeStatistics.from_global],
                      bounds=f"clustering off, pool {npool}, symbolic finite/inf dof from the fit", theory="QF_LIA")


def make_mode_fit_draws(npts, kmax):
    """ModeStatistics.from_particles under *every* outcome of the weighted resampling it performs before fitting: whatever indices
    np.random.choice returns (any non-empty multiset of the positive-weight candidates), every label that occurs among the training
    points gets a mode, and that mode is fitted on points of that label only."""
    from vf.engine.core import PathInfeasible
    from vf.engine.util import boolean
    U = (np.arange(1, npts + 1, dtype=float) / (npts + 1)).reshape(npts, 1)
    Wt = np.array([0.4, 0.3, 0.2, 0.0999, 0.0001][:npts])
    Wt = Wt / Wt.sum()

    def run(labels, choice):
        fitd = FitDouble(None, inf_dof=[False] * 8)
        with patched(modes_mod, fit_mvstud=fitd, np=NpProxy(random=type("R", (), {"choice": staticmethod(choice)})())):
            ms = ModeStatistics.from_particles(U.copy(), Wt.copy(), np.asarray(labels))
        return ms, fitd

    def judge(labels, ms, fitd):
        occurring = sorted(set(int(l) for l in labels))
        probs = []
        if int(ms.K) != len(occurring) or [int(x) for x in np.asarray(ms.labels)] != occurring:
            probs.append(f"labels {occurring} occur among the training points but the modes are for {[int(x) for x in np.asarray(ms.labels)]} (K={int(ms.K)})")
        else:
            for j, r in enumerate(occurring):
                members = frozenset(np.round(U[np.asarray(labels) == r, 0], 9).tolist())
                if not fitd.fits[j] or not fitd.fits[j] <= members:
                    probs.append(f"mode {j} (label {r}) was fitted on {sorted(fitd.fits[j])}, the points of that label are {sorted(members)}")
        return probs

    def harness(ctx: PathCtx):
        labels = [integer(ctx, f"label{i}", lo=0, hi=kmax - 1).resolve(0, kmax - 1) for i in range(npts)]
        ncall = {"n": 0}

        def choice(a, size=None, replace=True, p=None):
            n = a if isinstance(a, (int, np.integer)) else len(a)
            c = ncall["n"]
            ncall["n"] += 1
            cand = [i for i in range(n) if p is None or p[i] > 0]
            drawn = [i for i in cand if bool(boolean(ctx, f"drawn{c}_{i}"))]
            if not drawn:
                raise PathInfeasible()  # size >= 1 draws: at least one candidate is returned
            idx = np.array(drawn, dtype=int)[np.arange(int(size)) % len(drawn)]
            return idx if isinstance(a, (int, np.integer)) else np.asarray(a)[idx]
        try:
            ms, fitd = run(labels, choice)
        except (IndexError, ValueError) as e:
            ctx.fail("mode-fit-survives-every-resampling-outcome", f"{type(e).__name__}: {e}")
            return None
        ctx.ok("mode-fit-survives-every-resampling-outcome")
        probs = judge(labels, ms, fitd)
        ctx.check("every-occurring-label-has-a-mode-fitted-on-its-own-points", z3.BoolVal(not probs), detail=probs[:2])
        return None

    def replay(m, label, v):
        labels = [int(m.get(f"label{i}", 0)) for i in range(npts)]
        ncall = {"n": 0}

        def choice(a, size=None, replace=True, p=None):
            n = a if isinstance(a, (int, np.integer)) else len(a)
            c = ncall["n"]
            ncall["n"] += 1
            cand = [i for i in range(n) if p is None or p[i] > 0]
            drawn = [i for i in cand if bool(m.get(f"drawn{c}_{i}", False))] or cand[:1]
            idx = np.array(drawn, dtype=int)[np.arange(int(size)) % len(drawn)]
            return idx if isinstance(a, (int, np.integer)) else np.asarray(a)[idx]
        real_choice = np.random.choice
        np.random.choice = choice  # the real module attribute: from_particles runs unmodified apart from the fit double
        try:
            fitd = FitDouble(None, inf_dof=[False] * 8)
            try:
                with patched(modes_mod, fit_mvstud=fitd):
                    ms = ModeStatistics.from_particles(U.copy(), Wt.copy(), np.asarray(labels))
                probs = judge(labels, ms, fitd)
            except (IndexError, ValueError) as e:
                probs = [f"raised {type(e).__name__}: {e}"]
        finally:
            np.random.choice = real_choice
        return {"reproduced": bool(probs), "signature": "from_particles:label-without-own-mode", "payload": {"labels": labels, "problems": probs[:3]},
                "what": f"ModeStatistics.from_particles on {npts} points with labels {labels}, for one possible outcome of its internal resampling: {'; '.join(probs[:2])}"}

    return Obligation(f"mode-fit-draws-n{npts}-K{kmax}", harness, replay=replay, encodes=[ModeStatistics.from_particles],
                      bounds=f"{npts} weighted training points (weights 0.4 ... 1e-4), every label pattern with <= {kmax} labels, every non-empty set of "
                             "candidates returned by each np.random.choice call",
                      stubs=["np.random.choice -> any non-empty subset of the positive-probability candidates (symbolic)", "fit_mvstud -> tagged contract double"],
                      theory="QF_LIA", max_paths=60000, max_decisions=400)


def obligations(tier):
    obs = [make_pipeline(1, 4, 2, 2), make_pipeline(3, 4, 1, 2), make_pipeline(5, 3, 1, 2), make_global(4), make_pipeline(2, 3, 1, 2, resumed=True), make_mode_fit_draws(4, 2),
           # the smallest positive temperature the bisection can return (2^-14): every step must treat it as an annealing iteration
           make_pipeline(1, 4, 2, 2, beta_cur=2.0 ** -14), make_two_iterations(3, 3, 2)]
    if tier == "thorough":
        obs += [make_pipeline(1, 5, 1, 3), make_pipeline(1, 4, 2, 3), make_pipeline(2, 4, 2, 2), make_pipeline(7, 4, 1, 2, first_iter_range=(1, 15)),
                make_pipeline(3, 4, 1, 2, resumed=True), make_mode_fit_draws(5, 2), make_mode_fit_draws(4, 3), make_two_iterations(2, 4, 2, first_iter=4), make_two_iterations(3, 3, 3), make_two_iterations(1, 3, 2)]
    return obs
