"""C06 - resampling returns exactly n valid indices and follows the inverse-CDF law."""
from __future__ import annotations

import math
from fractions import Fraction

import numpy as np
import z3

import tempest.tools as tools
import tempest.steps.resample as resample_mod
from tempest.state_manager import StateManager

from vf.engine.core import PathCtx
from vf.engine.harness import Obligation
from vf.engine.real import SymReal, _rv
from vf.engine.arr import NpProxy, RandomStub, patched, sarr
from vf.engine.util import real, reals, eq, le, lt, scripted_random, seq_provider

PROPERTY_ID = "C06"
ASSUMPTIONS = [
    "exact-real arithmetic for the real-domain obligations (rounding only in the SymFP obligations)",
    "np.random.random returns an arbitrary value in [0,1); np.random.choice returns arbitrary indices in range",
]
EPS = Fraction(tools.SQRTEPS)


def _sum(xs):
    t = xs[0]
    for x in xs[1:]:
        t = t + x
    return t


def make_syst(n, m, mode):
    """mode 'tol': |sum w - 1| <= sqrt(eps) (no renormalisation); 'norm': sum w == 1 exactly;
    'renorm': arbitrary positive sum outside the tolerance (routine renormalises)."""

    def harness(ctx: PathCtx):
        w = reals(ctx, "w", m, lo=0)
        tot = _sum(w)
        if mode == "tol":
            ctx.assume(z3.And(tot.n - 1 <= _rv(EPS), 1 - tot.n <= _rv(EPS)))
        elif mode == "norm":
            ctx.assume(tot.n == 1)
        else:
            ctx.assume(z3.Or(tot.n - 1 > _rv(EPS), 1 - tot.n > _rv(EPS)))
            ctx.assume(tot.n > 0)
        u0 = real(ctx, "u0", lo=0, hi=1, hi_strict=True)
        stub = RandomStub(lambda kind, rec: u0, max_calls=1)
        with patched(tools, np=NpProxy(random=stub)):
            try:
                idx = tools.systematic_resample(n, sarr(w))
            except IndexError as e:
                ctx.fail("returns-without-exception", f"IndexError: {e}")
                return None
        ctx.ok("returns-without-exception")
        idx = [int(i) for i in idx]
        ctx.check("exactly-n", z3.BoolVal(len(idx) == n))
        ctx.check("valid-index", z3.BoolVal(all(0 <= i < m for i in idx)))
        ctx.check("non-decreasing", z3.BoolVal(all(idx[k] <= idx[k + 1] for k in range(n - 1))))
        if not all(0 <= i < m for i in idx):
            return idx
        # ceil(n * 0) = 0: an index whose weight is exactly zero is never returned (also inside the accepted sum tolerance)
        ctx.check("zero-weight-never-selected", z3.And(*[lt(0, w[i]) for i in sorted(set(idx))]))
        # inverse-CDF clause on the weights the routine actually uses
        wn = w if mode != "renorm" else [x / tot for x in w]
        cum = []
        t = None
        for x in wn:
            t = x if t is None else t + x
            cum.append(t)
        conds = []
        for k, i in enumerate(idx):
            pos = (u0 + k) / n
            if i > 0:
                conds.append(le(cum[i - 1], pos))
            if i < m - 1:
                # the slack of the accepted sum tolerance belongs to the last cell of positive width
                tail_zero = z3.And(*[eq(wn[t_], 0) for t_ in range(i + 1, m)])
                conds.append(z3.Or(le(pos, cum[i]), z3.And(tail_zero, le(pos, cum[i] + EPS))))
            else:
                conds.append(le(pos, cum[i] + EPS))
        ctx.check("inverse-cdf", z3.And(*conds) if conds else z3.BoolVal(True))
        if mode in ("norm", "renorm"):
            cc = []
            for i in range(m):
                c = idx.count(i)
                nw = wn[i] * n
                cc.append(z3.And(lt(c - 1, nw), lt(nw, c + 1)))
            ctx.check("copies-floor-or-ceil", z3.And(*cc))
        return idx

    def run_concrete(model):
        w = np.array([float(model[f"w{i}"]) for i in range(m)])
        u0 = float(model["u0"])
        with scripted_random(random=lambda *a, **k: u0):
            return tools.systematic_resample(n, w), w, u0

    def replay(model, label, v):
        payload = {"n": n, "w": [float(model[f"w{i}"]) for i in range(m)], "u0": float(model["u0"])}
        try:
            idx, w, u0 = run_concrete(model)
        except IndexError as e:
            return {"reproduced": label == "returns-without-exception",
                    "signature": "systematic_resample:IndexError", "payload": payload,
                    "what": f"tools.systematic_resample({n}, w={payload['w']}) with np.random.random()={payload['u0']!r} raises IndexError: {e}"}
        idx = [int(i) for i in idx]
        wn = w / w.sum() if abs(w.sum() - 1) > tools.SQRTEPS else w
        bad = None
        if label == "exactly-n":
            bad = len(idx) != n
        elif label == "valid-index":
            bad = not all(0 <= i < m for i in idx)
        elif label == "non-decreasing":
            bad = any(idx[k] > idx[k + 1] for k in range(len(idx) - 1))
        elif label == "zero-weight-never-selected":
            bad = any(w[i] == 0.0 for i in idx)
        elif label == "copies-floor-or-ceil":
            # relative slack only: a zero weight must get zero copies
            bad = any(not (math.floor(n * wn[i] * (1 - 1e-9)) <= idx.count(i) <= math.ceil(n * wn[i] * (1 + 1e-9)))
                      for i in range(m))
        elif label == "inverse-cdf":
            cum = np.cumsum(wn)
            bad = False
            for k, i in enumerate(idx):
                pos = (u0 + k) / n
                lo = cum[i - 1] if i > 0 else -1.0
                hi = cum[i] if (i < m - 1 and np.any(wn[i + 1:] > 0)) else cum[i] + 2 * tools.SQRTEPS
                if not (lo - 1e-12 <= pos <= hi + 1e-12):
                    bad = True
        return {"reproduced": bool(bad), "signature": f"systematic_resample:{label}", "payload": {**payload, "idx": idx},
                "what": f"tools.systematic_resample({n}, {payload['w']}) with u0={payload['u0']!r} returned {idx}, violating {label}"}

    def validate(witness, ret):
        if ret is None:
            return None, ""
        try:
            idx, _, _ = run_concrete(witness)
        except IndexError:
            return None, "float run raised (boundary model)"
        if [int(i) for i in idx] == list(ret):
            return True, ""
        return None, "float rounding moved the model across a comb boundary"

    return Obligation(
        f"syst-real-{mode}-n{n}-m{m}", harness, replay=replay, validate=validate,
        encodes=[tools.systematic_resample],
        bounds=f"size n={n}, len(weights) m={m}, weights >= 0, sum constraint '{mode}', u0 in [0,1), exact reals",
        stubs=["np.random.random -> symbolic u0 in [0,1)"], theory="QF_LRA/QF_NRA")


# ------------------------------------------------------------ Resampler.run call contract


def numpy_sampling_contract(ctx, kind, rec):
    """documented input validation of numpy's samplers (part of the environment contract):
    choice(p=...): p >= 0 and |sum(p) - 1| <= sqrt(eps) else ValueError; multinomial: sum(pvals[:-1]) <= 1 + 1e-12 else ValueError."""
    if kind == "choice" and rec.get("p") is not None:
        p = [SymReal.lift(v) for v in rec["p"]]
        tot = _sum(p)
        if bool((tot - 1 > EPS) | (1 - tot > EPS)):
            raise ValueError("probabilities do not sum to 1")
    if kind == "multinomial":
        p = [SymReal.lift(v) for v in rec["pvals"]]
        head = _sum(p[:-1]) if len(p) > 1 else SymReal.const(0)
        if bool(head > 1 + Fraction(1, 10 ** 12)):
            raise ValueError("sum(pvals[:-1]) > 1.0")


def make_resampler(scheme, n_particles, batches, mode="norm"):
    N = sum(batches)

    def harness(ctx: PathCtx):
        st = StateManager(n_dim=1)
        k = 0
        for t, nt in enumerate(batches):
            st._current["u"] = sarr([[real(ctx, f"u{k + j}", lo=0, hi=1)] for j in range(nt)])
            st._current["x"] = sarr([[real(ctx, f"x{k + j}")] for j in range(nt)])
            st._current["logl"] = sarr([real(ctx, f"l{k + j}") for j in range(nt)])
            st._current["beta"] = 0.5
            st.commit_current_to_history()
            k += nt
        st.set_current("beta", 0.5)
        w = reals(ctx, "w", N, lo=0)
        tot = _sum(w)
        if mode == "norm":
            ctx.assume(tot.n == 1)
        else:
            ctx.assume(z3.And(tot.n - 1 <= _rv(EPS), 1 - tot.n <= _rv(EPS)))
        weights = sarr(w)
        draws = {}
        from vf.engine.real import SymInt

        def provider(kind, rec):
            numpy_sampling_contract(ctx, kind, rec)
            if kind == "choice":
                draws["choice"] = rec
                pop = list(range(int(rec["a"]))) if isinstance(rec["a"], (int, np.integer)) else list(rec["a"])  # numpy: an int a means arange(a)
                rec["population"] = pop
                out = []
                for j in range(int(rec["size"])):
                    zi = ctx.register(f"c{j}", z3.Int(f"c{j}"))
                    ctx.assume(z3.And(zi >= 0, zi < len(pop)))
                    out.append(int(pop[SymInt(zi).resolve(0, len(pop) - 1)]))
                return np.array(out, dtype=int)
            if kind == "multinomial":
                draws["multinomial"] = rec
                n, K = int(rec["n"]), len(rec["pvals"])
                out, left = [], n
                for j in range(K - 1):
                    zi = ctx.register(f"m{j}", z3.Int(f"m{j}"))
                    ctx.assume(z3.And(zi >= 0, zi <= left))
                    v = SymInt(zi).resolve(0, left)
                    out.append(v)
                    left -= v
                out.append(left)
                return np.array(out, dtype=int)
            if kind == "random":
                draws["random"] = rec
                if rec.get("size") is not None:
                    k_ = int(np.prod(rec["size"]))
                    return sarr([real(ctx, f"ur{j}", lo=0, hi=1, hi_strict=True) for j in range(k_)])
                return real(ctx, "u0", lo=0, hi=1, hi_strict=True)
            raise AssertionError(kind)

        def searchsorted(a, v, side="left", sorter=None):
            """np.searchsorted on symbolic arrays: binary search semantics by linear scan (comparisons fork)."""
            a = list(np.asarray(a, dtype=object).reshape(-1))
            vs = list(np.asarray(v, dtype=object).reshape(-1)) if isinstance(v, np.ndarray) else [v]
            out = []
            for x in vs:
                i = 0
                while i < len(a) and (bool(a[i] <= x) if side == "right" else bool(a[i] < x)):
                    i += 1
                out.append(i)
            return np.array(out, dtype=int) if isinstance(v, np.ndarray) else out[0]

        stub = RandomStub(provider)
        rs = resample_mod.Resampler(st, n_particles=n_particles, resample=scheme, clusterer=None, clustering=False)
        with patched(resample_mod, np=NpProxy(random=stub, overrides={"searchsorted": searchsorted})), \
                patched(tools, np=NpProxy(random=stub, overrides={"searchsorted": searchsorted})):
            try:
                rs.run(weights)
            except (IndexError, ValueError) as e:
                ctx.fail("returns-without-exception", f"{type(e).__name__}: {e}")
                return None
        ctx.ok("returns-without-exception")
        u = st._current["u"]
        ctx.check("exactly-n", z3.BoolVal(len(u) == n_particles and len(st._current["logl"]) == n_particles
                                          and len(st._current["x"]) == n_particles))
        if scheme == "mult" and "choice" in draws:
            rec = draws.get("choice")
            ok = rec is not None and int(rec["size"]) == n_particles and rec["replace"] is True \
                and list(rec["population"]) == list(range(N)) and rec["p"] is not None and len(rec["p"]) == N
            ctx.check("multinomial-call-shape", z3.BoolVal(bool(ok)))
            if ok:
                ctx.check("multinomial-p-is-whole-history-weights",
                          z3.And(*[eq(rec["p"][i], w[i]) for i in range(N)]))
        return [len(u)]

    def replay(m, label, v):
        st = StateManager(n_dim=1)
        k = 0
        for nt in batches:
            st.update_current({"u": np.full((nt, 1), 0.5), "x": np.arange(k, k + nt, dtype=float).reshape(nt, 1), "logl": -np.arange(k, k + nt, dtype=float),
                               "beta": 0.5})
            st.commit_current_to_history()
            k += nt
        st.set_current("beta", 0.5)
        w = np.array([float(m[f"w{i}"]) for i in range(N)])
        rs = resample_mod.Resampler(st, n_particles=n_particles, resample=scheme, clusterer=None, clustering=False)
        saved = np.random.get_state()
        np.random.seed(0)
        err = None
        urs = [float(m[k_]) for k_ in sorted((k for k in m if k.startswith("ur")), key=lambda t: int(t[2:]))]
        u0 = float(m["u0"]) if "u0" in m else None

        def scripted(size=None):
            if size is None:
                return u0 if u0 is not None else (urs[0] if urs else 0.5)
            k_ = int(np.prod(size))
            vals = (urs + [0.5] * k_)[:k_]
            return np.array(vals).reshape(size)
        try:
            if urs or u0 is not None:
                with scripted_random(random=scripted):
                    rs.run(w)
            else:
                rs.run(w)
        except Exception as e:
            err = e
        finally:
            np.random.set_state(saved)
        bad = err is not None or st.get_current("u") is None or len(st.get_current("u")) != n_particles
        return {"reproduced": bool(bad), "signature": f"Resampler.run:{scheme}:{label}", "payload": {"weights": w.tolist(), "sum": float(w.sum())},
                "what": f"Resampler.run({scheme}) with weights {w.tolist()} (sum-1 = {w.sum() - 1:.3g}): " + (f"raised {type(err).__name__}: {err}" if err else "wrong count")}

    return Obligation(
        f"resampler-{scheme}-{mode}-n{n_particles}-hist{'x'.join(map(str, batches))}", harness, replay=replay,
        encodes=[resample_mod.Resampler.run, tools.systematic_resample],
        bounds=f"history batches {batches}, n_particles={n_particles}, d=1, symbolic weights with sum constraint '{mode}'",
        stubs=["np.random.choice/multinomial -> arbitrary indices/counts; numpy's documented input validation (sum tolerance) modelled, call parameters recorded",
               "np.random.random -> symbolic u0 in [0,1)"], theory="QF_LRA")


def make_syst_fp(n, m):
    """bit-precise variant: weights and offset are arbitrary doubles (finite, weights >= 0, offset in [0,1)),
    np.sum is the sequential float sum (numpy uses pairwise summation only from 8 elements on)."""
    from vf.engine.fp import SymFP, FP, fpval
    import z3 as _z3

    def harness(ctx: PathCtx):
        ws = []
        for i in range(m):
            t = ctx.register(f"w{i}", _z3.FP(f"w{i}", FP))
            ctx.assume(_z3.Not(_z3.Or(_z3.fpIsNaN(t), _z3.fpIsInf(t))))
            ctx.assume(_z3.fpGEQ(t, fpval(0.0)))
            ws.append(SymFP(t))
        tot = ws[0]
        for x in ws[1:]:
            tot = tot + x
        ctx.assume(_z3.fpGT(tot.z, fpval(0.0)))
        ctx.assume(_z3.Not(_z3.fpIsInf(tot.z)))
        u = ctx.register("u0", _z3.FP("u0", FP))
        ctx.assume(_z3.And(_z3.fpGEQ(u, fpval(0.0)), _z3.fpLT(u, fpval(1.0))))
        stub = RandomStub(lambda kind, rec: SymFP(u), max_calls=1)
        with patched(tools, np=NpProxy(random=stub)):
            try:
                idx = tools.systematic_resample(n, sarr(ws))
            except IndexError as e:
                ctx.fail("returns-without-exception", f"IndexError: {e}")
                return None
        ctx.ok("returns-without-exception")
        idx = [int(i) for i in idx]
        ctx.check("exactly-n-valid-nondecreasing", _z3.BoolVal(len(idx) == n and all(0 <= i < m for i in idx)
                                                              and all(idx[k] <= idx[k + 1] for k in range(n - 1))))
        if all(0 <= i < m for i in idx) and m <= 2:
            # (m = 3: the bit-precise query for this clause is not decided within the per-query budget; the clause is decided for m = 3
            #  in exact reals, all three sum modes)
            ctx.check("zero-weight-never-selected", _z3.And(*[_z3.fpGT(ws[i].z, fpval(0.0)) for i in sorted(set(idx))]))
        return idx

    def run_concrete(model):
        w = np.array([float(model[f"w{i}"]) for i in range(m)])
        u0 = float(model["u0"])
        with scripted_random(random=lambda *a, **k: u0):
            return tools.systematic_resample(n, w), w, u0

    def replay(model, label, v):
        payload = {"n": n, "w": [float(model[f"w{i}"]) for i in range(m)], "u0": float(model["u0"])}
        try:
            idx, w, u0 = run_concrete(model)
        except IndexError as e:
            return {"reproduced": True, "signature": "systematic_resample:IndexError", "payload": payload,
                    "what": f"tools.systematic_resample({n}, w={payload['w']}) with np.random.random()={payload['u0']!r} raises IndexError: {e}"}
        idx = [int(i) for i in idx]
        if label == "zero-weight-never-selected":
            bad = any(w[i] == 0.0 for i in idx if 0 <= i < m)
        else:
            bad = len(idx) != n or not all(0 <= i < m for i in idx) or any(idx[k] > idx[k + 1] for k in range(n - 1))
        return {"reproduced": bool(bad), "signature": f"systematic_resample:fp:{label}", "payload": {**payload, "idx": idx},
                "what": f"tools.systematic_resample({n}, {payload['w']}) with u0={payload['u0']!r} returned {idx}"}

    def validate(witness, ret):
        if ret is None:
            return None, ""
        try:
            idx, _, _ = run_concrete(witness)
        except IndexError:
            return False, "float run raised IndexError on a path the symbolic run completed"
        return ([int(i) for i in idx] == list(ret)), f"float run {[int(i) for i in idx]} vs symbolic path {list(ret)}"

    return Obligation(f"syst-fp-n{n}-m{m}", harness, replay=replay, validate=validate, encodes=[tools.systematic_resample],
                      bounds=f"size n={n}, m={m} weights: ALL finite non-negative doubles with positive finite sum, ALL offsets in [0,1) (bit-precise)",
                      stubs=["np.random.random -> symbolic double in [0,1)"], theory="QF_FP", timeout_ms=60000)


def make_syst_fp_counts(n, wts):
    """bit-precise count law: concrete (dyadic, exactly normalised) weights, the offset an arbitrary double in [0,1):
    every index is copied floor(n*w_i) or ceil(n*w_i) times. The comb positions (u0 + k)/n are rounded; a tooth that rounds onto a
    cell boundary must still fall into the cell it belongs to."""
    from vf.engine.fp import SymFP, FP, fpval
    import z3 as _z3
    m = len(wts)
    W = [float(Fraction(w)) for w in wts]
    assert sum(Fraction(w) for w in wts) == 1

    def harness(ctx: PathCtx):
        u = ctx.register("u0", _z3.FP("u0", FP))
        ctx.assume(_z3.And(_z3.fpGEQ(u, fpval(0.0)), _z3.fpLT(u, fpval(1.0))))
        stub = RandomStub(lambda kind, rec: SymFP(u), max_calls=1)
        with patched(tools, np=NpProxy(random=stub)):
            idx = [int(i) for i in tools.systematic_resample(n, np.array(W))]
        copies = [idx.count(i) for i in range(m)]
        ok = all(math.floor(n * Fraction(wts[i])) <= copies[i] <= math.ceil(n * Fraction(wts[i])) for i in range(m)) and len(idx) == n
        ctx.check("copies-floor-or-ceil(bit-precise)", _z3.BoolVal(bool(ok)), detail={"indices": idx, "copies": copies, "n*w": [float(n * Fraction(w)) for w in wts]})
        return idx

    def replay(model, label, v):
        u0 = float(model["u0"])
        with scripted_random(random=lambda *a, **k: u0):
            idx = [int(i) for i in tools.systematic_resample(n, np.array(W))]
        copies = [idx.count(i) for i in range(m)]
        bad = not all(math.floor(n * Fraction(wts[i])) <= copies[i] <= math.ceil(n * Fraction(wts[i])) for i in range(m))
        return {"reproduced": bool(bad), "signature": "systematic_resample:fp:copies-floor-or-ceil", "payload": {"n": n, "w": W, "u0": u0, "idx": idx},
                "what": f"tools.systematic_resample({n}, {W}) with np.random.random()={u0!r} returned {idx}: copies {copies} but n*w = {[float(n * Fraction(w)) for w in wts]}"}

    return Obligation(f"syst-fp-counts-n{n}-w{'_'.join(str(w) for w in wts)}", harness, replay=replay, encodes=[tools.systematic_resample],
                      bounds=f"size n={n}, concrete weights {list(map(str, wts))}, ALL offsets in [0,1) as doubles (bit-precise)",
                      stubs=["np.random.random -> symbolic double in [0,1)"], theory="QF_FP", timeout_ms=120000)


def obligations(tier):
    obs = []
    sizes = [(2, 2), (3, 2), (2, 3), (3, 3)] if tier == "quick" else [(2, 2), (3, 2), (2, 3), (3, 3), (4, 3), (3, 4), (4, 4)]
    for (n, m) in sizes:
        for mode in ("tol", "norm", "renorm"):
            obs.append(make_syst(n, m, mode))
    obs.append(make_resampler("mult", 2, (2, 1)))
    obs.append(make_resampler("mult", 2, (2, 1), mode="tol"))
    obs.append(make_resampler("syst", 2, (2, 1)))
    obs.append(make_resampler("syst", 2, (2, 1), mode="tol"))
    obs.append(make_syst_fp(2, 2))
    obs.append(make_syst_fp_counts(4, ("1/4", "1/4", "1/4", "1/4")))
    obs.append(make_syst_fp_counts(4, ("1/2", "1/4", "1/4")))
    obs.append(make_syst_fp_counts(3, ("1/2", "1/4", "1/4")))
    if tier == "thorough":
        obs.append(make_resampler("mult", 3, (2, 2)))
        obs.append(make_resampler("syst", 3, (2, 2)))
        obs.append(make_syst_fp(3, 2))
        obs.append(make_syst_fp(2, 3))
        obs.append(make_syst_fp_counts(8, ("1/8",) * 8))
        obs.append(make_syst_fp_counts(8, ("1/2", "1/4", "1/8", "1/8")))
        obs.append(make_syst_fp_counts(2, ("1/2", "1/2")))
        obs.append(make_syst_fp_counts(5, ("1/2", "1/4", "1/8", "1/8")))
        obs.append(make_syst_fp_counts(6, ("1/4",) * 4))
    return obs
