"""C17 - accessors never alias internal state; committed history is append-only."""
from __future__ import annotations

import copy
import math

import numpy as np
import z3

import tempest.state_manager as sm_mod
from tempest.state_manager import StateManager, HISTORY_STATE_KEYS, CURRENT_STATE_KEYS

from vf.engine.core import PathCtx, HarnessError
from vf.engine.harness import Obligation
from vf.engine.real import LogVal, SymReal, SymInt
from vf.engine.arr import NpProxy, patched, sarr
from vf.engine.util import real, eq, integer

PROPERTY_ID = "C17"
ASSUMPTIONS = [
    "operation sequences are selected by symbolic op-codes (the driver enumerates them through solver decisions); "
    "array contents are symbolic and compared by the solver",
    "set_current(copy=False) is the documented opt-out and is not scribbled",
]

N = 2  # rows per batch


class Fresh:
    def __init__(self, ctx):
        self.ctx = ctx
        self.k = 0

    def real(self, base="v"):
        self.k += 1
        return real(self.ctx, f"{base}{self.k}")

    def atom(self):
        self.k += 1
        return LogVal.atom(f"a{self.k}", 1)

    def arr_u(self, n=N):
        return sarr([[self.real("u")] for _ in range(n)])

    def arr_logl(self, n=N):
        return sarr([self.atom() for _ in range(n)])

    def arr_nested_blobs(self):
        """object-dtype blobs whose elements are themselves (mutable) arrays, as with blobs_dtype='object'"""
        out = np.empty(N, dtype=object)
        for i in range(N):
            inner = np.empty(1, dtype=object)
            inner[0] = self.real("blob")
            out[i] = inner
        return out

    def logz(self):
        self.k += 1
        return LogVal.of_positive(real(self.ctx, f"Z{self.k}", lo=0, lo_strict=True))


def val_eq(a, b):
    """z3 condition: two stored values are equal (None/number/array of symbolic scalars)."""
    if a is None or b is None:
        return z3.BoolVal(a is None and b is None)
    if isinstance(a, np.ndarray) or isinstance(b, np.ndarray):
        if not (isinstance(a, np.ndarray) and isinstance(b, np.ndarray)) or a.shape != b.shape:
            return z3.BoolVal(False)
        return z3.And(*[val_eq(p, q) for p, q in zip(a.reshape(-1), b.reshape(-1))]) if a.size else z3.BoolVal(True)
    if isinstance(a, LogVal) or isinstance(b, LogVal):
        if not (isinstance(a, LogVal) and isinstance(b, LogVal)):
            if isinstance(a, LogVal) and isinstance(b, (int, float)) and b == 0:
                return eq(a.exp(), 1)
            return z3.BoolVal(False)
        return eq(a.exp(), b.exp())
    if isinstance(a, (SymReal, int, float, np.integer, np.floating)) and isinstance(b, (SymReal, int, float, np.integer, np.floating)):
        return eq(a, b)
    return z3.BoolVal(a is b)


class Model:
    """pure reference model of the state manager (values are never shared with the implementation)."""

    def __init__(self):
        self.cur = {k: None for k in CURRENT_STATE_KEYS}
        self.hist = {k: [] for k in HISTORY_STATE_KEYS}

    @staticmethod
    def cp(v):
        if isinstance(v, np.ndarray):
            out = v.copy()
            if out.dtype == object:
                for idx in np.ndindex(out.shape):
                    if isinstance(out[idx], np.ndarray):
                        out[idx] = Model.cp(out[idx])
            return out
        return v

    def set(self, k, v):
        self.cur[k] = self.cp(v)

    def commit(self):
        for k in CURRENT_STATE_KEYS:
            if k in HISTORY_STATE_KEYS and self.cur[k] is not None:
                self.hist[k].append(self.cp(self.cur[k]))

    def same_as(self, st: StateManager):
        conds = []
        for k in CURRENT_STATE_KEYS:
            conds.append(val_eq(self.cur[k], st._current[k]))
        for k in HISTORY_STATE_KEYS:
            conds.append(z3.BoolVal(len(self.hist[k]) == len(st._history[k])))
            for a, b in zip(self.hist[k], st._history[k]):
                conds.append(val_eq(a, b))
        return z3.And(*conds)


def scribble(obj, fr: Fresh, depth=0):
    """the caller overwrites everything it was handed, in place."""
    if isinstance(obj, np.ndarray):
        if obj.size:
            flat = obj.reshape(-1) if obj.flags.c_contiguous else None
            if obj.dtype == object:
                for idx in np.ndindex(obj.shape):
                    if isinstance(obj[idx], np.ndarray):
                        scribble(obj[idx], fr, depth + 1)  # a blob that is itself an array: the caller writes into it before dropping it
                for idx in np.ndindex(obj.shape):
                    obj[idx] = fr.atom() if isinstance(obj[idx], LogVal) else fr.real("scr")
            else:
                obj[...] = -777.0
    elif isinstance(obj, dict):
        for k in list(obj.keys()):
            scribble(obj[k], fr, depth + 1)
        for k in list(obj.keys()):
            if not isinstance(obj[k], (dict,)):
                obj[k] = fr.real("scr") if depth else obj[k]
        obj["__scribbled__"] = 1
    elif isinstance(obj, list):
        for v in obj:
            scribble(v, fr, depth + 1)
        obj.append(fr.real("scr"))
        if len(obj) > 1:
            obj[0] = fr.real("scr")
    elif isinstance(obj, tuple):
        for v in obj:
            scribble(v, fr, depth + 1)


OPS = ["set_u", "set_logl", "update", "commit", "get_current_key", "get_current_all", "get_history", "get_history_flat",
       "get_history_index", "get_last", "to_dict", "export_import", "export_from_dict", "results", "set_then_scribble_input", "set_readonly_view",
       "set_nested_blobs", "commit_strict_refused", "commit_bigger_batch_then_read", "update_nocopy_commit_replace_then_reuse"]


def apply_op(ctx, op, st: StateManager, model: Model, fr: Fresh, tag):
    """perform one public operation, check what it returns against the model, scribble it, return nothing."""
    def expect(label, cond):
        ctx.check(f"{tag}:{label}", cond)

    if op == "set_u":
        a = fr.arr_u()
        st.set_current("u", a)
        model.set("u", a)
    elif op == "set_logl":
        a = fr.arr_logl()
        st.set_current("logl", a)
        model.set("logl", a)
    elif op == "set_nested_blobs":
        a = fr.arr_nested_blobs()
        keep = Model.cp(a)
        st.set_current("blobs", a)
        model.set("blobs", keep)
        scribble(a, fr)  # the caller keeps writing into its own containers
        got = st.get_current("blobs")
        expect("get_current(blobs)==state", val_eq(got, model.cur["blobs"]))
        scribble(got, fr)
    elif op == "commit_strict_refused":
        # a strict commit that is refused (a required quantity is missing) appends nothing: the caller catches the error and carries on
        saved_logl = model.cur["logl"]
        st.set_current("logl", None)
        model.set("logl", None)
        before = {k: len(st._history[k]) for k in HISTORY_STATE_KEYS}
        refused = False
        try:
            st.commit_current_to_history(strict=True)
        except ValueError:
            refused = True
        expect("strict-commit-without-logl-is-refused", z3.BoolVal(refused))
        expect("refused-commit-appends-nothing", z3.BoolVal(all(len(st._history[k]) == before[k] for k in HISTORY_STATE_KEYS)),)
        if saved_logl is not None:
            st.set_current("logl", Model.cp(saved_logl))
            model.set("logl", saved_logl)
    elif op == "commit_bigger_batch_then_read":
        # batches of different size (a run continued with another n_particles): per-iteration reads either refuse (ValueError) or hand out copies
        a, b = fr.arr_u(N + 1), fr.arr_logl(N + 1)
        d = {"u": a, "logl": b, "beta": 1.0, "logz": fr.logz()}
        st.update_current(d)
        for k, v in d.items():
            model.set(k, v)
        st.commit_current_to_history()
        model.commit()
        try:
            r = st.get_history("u")
        except ValueError:
            r = None
        if r is not None:
            expect("get_history(u)==history(ragged)", z3.And(z3.BoolVal(len(r) == len(model.hist["u"])),
                                                             *[val_eq(r[i], model.hist["u"][i]) for i in range(min(len(r), len(model.hist["u"])))]))
            scribble(r, fr)
        # restore a batch of the ordinary size as current state (later operations stack batches)
        a2, b2 = fr.arr_u(), fr.arr_logl()
        st.update_current({"u": a2, "logl": b2})
        model.set("u", a2)
        model.set("logl", b2)
    elif op == "update_nocopy_commit_replace_then_reuse":
        # the caller's own buffers go in with copy=False (the documented opt-out: it does not touch them while they are the current
        # value), the batch is committed, the current value is replaced - and only then are the buffers reused for something else.
        # The committed batch must not change (append-only history never shares memory with what the caller handed in).
        a, b = fr.arr_u(), fr.arr_logl()
        d = {"u": a, "logl": b, "beta": 1.0, "logz": fr.logz()}
        keep = {k: Model.cp(v) for k, v in d.items()}
        st.update_current(d, copy=False)
        for k, v in keep.items():
            model.set(k, v)
        st.commit_current_to_history()
        model.commit()
        a2, b2 = fr.arr_u(), fr.arr_logl()
        st.update_current({"u": a2, "logl": b2})
        model.set("u", a2)
        model.set("logl", b2)
        scribble(a, fr)
        scribble(b, fr)
        last_u, last_l = st.get_last_history("u"), st.get_last_history("logl")
        expect("committed-batch-unaffected-by-reuse-of-the-caller's-buffers",
               z3.And(val_eq(last_u, model.hist["u"][-1]), val_eq(last_l, model.hist["logl"][-1])))
    elif op == "set_then_scribble_input":
        a = fr.arr_u()
        keep = a.copy()
        st.set_current("u", a)
        model.set("u", keep)
        scribble(a, fr)
    elif op == "set_readonly_view":
        # the caller hands in a locked (read-only) view of a buffer it keeps writing to, e.g. a reused likelihood output
        base = fr.arr_logl()
        view = base.view()
        view.flags.writeable = False
        keep = base.copy()
        st.set_current("logl", view)
        model.set("logl", keep)
        scribble(base, fr)
    elif op == "update":
        a, b = fr.arr_u(), fr.arr_logl()
        d = {"u": a, "logl": b, "beta": 1.0, "logz": fr.logz()}
        st.update_current(d)
        for k, v in d.items():
            model.set(k, v)
        scribble(a, fr)
        scribble(b, fr)
    elif op == "commit":
        before = {k: len(st._history[k]) for k in HISTORY_STATE_KEYS}
        old = {k: list(st._history[k]) for k in HISTORY_STATE_KEYS}
        st.commit_current_to_history()
        model.commit()
        ok = all(len(st._history[k]) == before[k] + (1 if model.cur[k] is not None else 0) for k in HISTORY_STATE_KEYS)
        expect("commit-appends-exactly-one-batch-per-recorded-key", z3.BoolVal(bool(ok)))
    elif op == "get_current_key":
        r = st.get_current("u")
        expect("get_current(u)==state", val_eq(r, model.cur["u"]))
        scribble(r, fr)
    elif op == "get_current_all":
        r = st.get_current()
        expect("get_current()==state", z3.And(*[val_eq(r[k], model.cur[k]) for k in CURRENT_STATE_KEYS]))
        scribble(r, fr)
    elif op == "get_history":
        try:
            r = st.get_history("u")
        except ValueError:
            if len({len(b_) for b_ in model.hist["u"]}) > 1:
                return  # batches of different size: the non-flat view refuses (observed behaviour of the original, not part of C17)
            raise
        expect("get_history(u)==history", z3.And(z3.BoolVal(len(r) == len(model.hist["u"])),
                                                 *[val_eq(r[i], model.hist["u"][i]) for i in range(min(len(r), len(model.hist["u"])))]))
        scribble(r, fr)
    elif op == "get_history_flat":
        if len(model.hist["logl"]) == 0:
            return
        r = st.get_history("logl", flat=True)
        expect("get_history(flat)==history", val_eq(r, np.concatenate(model.hist["logl"])))
        scribble(r, fr)
    elif op == "get_history_index":
        if len(model.hist["u"]) == 0:
            return
        r = st.get_history("u", index=0)
        expect("get_history(index)==history", val_eq(r, model.hist["u"][0]))
        scribble(r, fr)
    elif op == "get_last":
        r = st.get_last_history("logl")
        expect("get_last_history==history", val_eq(r, model.hist["logl"][-1] if model.hist["logl"] else None))
        scribble(r, fr)
    elif op == "to_dict":
        r = st.to_dict()
        conds = [val_eq(r["_current"][k], model.cur[k]) for k in CURRENT_STATE_KEYS]
        for k in HISTORY_STATE_KEYS:
            conds.append(z3.BoolVal(len(r["_history"][k]) == len(model.hist[k])))
            conds += [val_eq(a, b) for a, b in zip(r["_history"][k], model.hist[k])]
        expect("to_dict()==state", z3.And(*conds))
        scribble(r["_current"], fr, 1)
        scribble(r["_history"], fr, 1)
    elif op in ("export_import", "export_from_dict"):
        r = st.to_dict()
        if op == "export_from_dict":
            st2 = StateManager.from_dict(r)  # the constructor-style import
        else:
            st2 = StateManager(n_dim=1)
            st2.update_from_dict(r)
        m2 = copy.copy(model)
        m2.cur = {k: Model.cp(v) for k, v in model.cur.items()}
        m2.hist = {k: [Model.cp(v) for v in vs] for k, vs in model.hist.items()}
        scribble(r["_current"], fr, 1)
        scribble(r["_history"], fr, 1)
        expect("imported-copy-unaffected-by-scribbling-the-exported-dict", m2.same_as(st2))
    elif op == "results":
        if len(model.hist["logl"]) == 0 or len(model.hist["beta"]) == 0:
            return
        if len({len(b_) for b_ in model.hist["u"]}) > 1:
            return  # batches of different size: compute_results refuses on the original (ValueError), not part of C17
        with patched(sm_mod, np=NpProxy(exact_log=True)):
            r = st.compute_results()
            ref_logw, _ = st.compute_logw_and_logz(1.0)
        conds = [z3.BoolVal(len(r["u"]) == len(model.hist["u"]))]
        conds += [val_eq(a, b) for a, b in zip(r["u"], model.hist["u"])]
        conds.append(val_eq(np.asarray(r["logw"], dtype=object), np.asarray(ref_logw, dtype=object)))
        expect("results()==history-and-weights", z3.And(*conds))
        scribble(r, fr, 1)
        with patched(sm_mod, np=NpProxy(exact_log=True)):
            r2 = st.compute_results()
        intact = "__scribbled__" not in r2 and isinstance(r2.get("u"), np.ndarray) and len(r2["u"]) == len(model.hist["u"])
        conds = [z3.BoolVal(bool(intact))]
        if intact:
            conds += [val_eq(a, b) for a, b in zip(r2["u"], model.hist["u"])]
            conds.append(val_eq(np.asarray(r2["logw"], dtype=object), np.asarray(ref_logw, dtype=object)))
        expect("results()-unaffected-by-writes-to-an-earlier-result", z3.And(*conds))
    else:
        raise HarnessError(op)


def make_sequences(length):
    def harness(ctx: PathCtx):
        fr = Fresh(ctx)
        st = StateManager(n_dim=1)
        model = Model()
        # fixed prefix: one committed batch and a fresh current state
        for op in ("update", "commit", "update"):
            apply_op(ctx, op, st, model, fr, "prefix")
        seq = []
        for i in range(length):
            code = integer(ctx, f"op{i}", lo=0, hi=len(OPS) - 1).resolve(0, len(OPS) - 1)
            op = OPS[code]
            seq.append(op)
            apply_op(ctx, op, st, model, fr, f"step{i}:{op}")
            ctx.check(f"step{i}:{op}:state-unaffected-by-caller-writes", model.same_as(st))
        ctx.notes["seq"] = seq
        return seq

    def run_concrete(seq):
        """replay an operation sequence on the real StateManager with float arrays and a float reference model."""
        rng = np.random.RandomState(0)
        st = StateManager(n_dim=1)
        cur = {k: None for k in CURRENT_STATE_KEYS}
        hist = {k: [] for k in HISTORY_STATE_KEYS}

        def cp(v):
            if isinstance(v, np.ndarray):
                out = v.copy()
                if out.dtype == object:
                    for i_ in np.ndindex(out.shape):
                        if isinstance(out[i_], np.ndarray):
                            out[i_] = cp(out[i_])
                return out
            return v

        def arr_eq(a, b):
            if not (isinstance(b, np.ndarray) and a.shape == b.shape):
                return False
            if a.dtype == object or b.dtype == object:
                return all((arr_eq(p, q) if isinstance(p, np.ndarray) else (not isinstance(q, np.ndarray) and p == q)) for p, q in zip(a.reshape(-1), b.reshape(-1)))
            return np.array_equal(a, b)

        def scr(o, depth=0):
            if isinstance(o, np.ndarray):
                if o.dtype == object:
                    for i_ in np.ndindex(o.shape):
                        if isinstance(o[i_], np.ndarray):
                            o[i_][...] = -777.0
                o[...] = -777.0
            elif isinstance(o, dict):
                for v in o.values():
                    scr(v, depth + 1)
                o["__scribbled__"] = 1
            elif isinstance(o, list):
                for v in o:
                    scr(v, depth + 1)
                o.append(-777.0)

        def same():
            for k in CURRENT_STATE_KEYS:
                a, b = cur[k], st._current[k]
                if isinstance(a, np.ndarray):
                    if not arr_eq(a, b):
                        return f"current[{k}] changed"
                elif a != b:
                    return f"current[{k}] changed"
            for k in HISTORY_STATE_KEYS:
                if len(hist[k]) != len(st._history[k]):
                    return f"history[{k}] length changed"
                for i, (a, b) in enumerate(zip(hist[k], st._history[k])):
                    if isinstance(a, np.ndarray):
                        if not arr_eq(a, b):
                            return f"history[{k}][{i}] changed"
                    elif a != b:
                        return f"history[{k}][{i}] changed"
            return None

        def do(op):
            if op in ("set_u", "set_then_scribble_input"):
                a = rng.rand(N, 1)
                st.set_current("u", a)
                cur["u"] = a.copy()
                if op != "set_u":
                    scr(a)
            elif op == "set_logl":
                a = -rng.rand(N)
                st.set_current("logl", a)
                cur["logl"] = a.copy()
            elif op == "set_nested_blobs":
                a = np.empty(N, dtype=object)
                for i_ in range(N):
                    a[i_] = rng.rand(1)
                st.set_current("blobs", a)
                cur["blobs"] = cp(a)
                scr(a)
                scr(st.get_current("blobs"))
            elif op == "set_readonly_view":
                base = -rng.rand(N)
                view = base.view()
                view.flags.writeable = False
                st.set_current("logl", view)
                cur["logl"] = base.copy()
                base[...] = -777.0
            elif op == "update":
                d = {"u": rng.rand(N, 1), "logl": -rng.rand(N), "beta": 0.5, "logz": -rng.rand()}
                st.update_current(d)
                for k, v in d.items():
                    cur[k] = cp(v)
                scr(d["u"])
                scr(d["logl"])
            elif op == "commit":
                st.commit_current_to_history()
                for k in CURRENT_STATE_KEYS:
                    if k in HISTORY_STATE_KEYS and cur[k] is not None:
                        hist[k].append(cp(cur[k]))
            elif op == "update_nocopy_commit_replace_then_reuse":
                d = {"u": rng.rand(N, 1), "logl": -rng.rand(N), "beta": 0.5, "logz": -rng.rand()}
                st.update_current(d, copy=False)
                for k, v in d.items():
                    cur[k] = cp(v)
                st.commit_current_to_history()
                for k in CURRENT_STATE_KEYS:
                    if k in HISTORY_STATE_KEYS and cur[k] is not None:
                        hist[k].append(cp(cur[k]))
                d2 = {"u": rng.rand(N, 1), "logl": -rng.rand(N)}
                st.update_current(d2)
                for k, v in d2.items():
                    cur[k] = cp(v)
                scr(d["u"])  # the buffers are reused only after they stopped being the current value
                scr(d["logl"])
            elif op == "get_current_key":
                scr(st.get_current("u"))
            elif op == "get_current_all":
                scr(st.get_current())
            elif op == "get_history":
                try:
                    scr(st.get_history("u"))
                except ValueError:
                    if len({len(b_) for b_ in hist["u"]}) <= 1:
                        raise
            elif op == "commit_strict_refused":
                saved_logl = cur["logl"]
                st.set_current("logl", None)
                cur["logl"] = None
                before = {k: len(st._history[k]) for k in HISTORY_STATE_KEYS}
                try:
                    st.commit_current_to_history(strict=True)
                    return "a strict commit without logl was accepted"
                except ValueError:
                    pass
                grown = [k for k in HISTORY_STATE_KEYS if len(st._history[k]) != before[k]]
                if grown:
                    return f"a refused strict commit still appended a batch for {grown}"
                if saved_logl is not None:
                    st.set_current("logl", cp(saved_logl))
                    cur["logl"] = saved_logl
            elif op == "commit_bigger_batch_then_read":
                d = {"u": rng.rand(N + 1, 1), "logl": -rng.rand(N + 1), "beta": 0.5, "logz": -rng.rand()}
                st.update_current(d)
                for k, v in d.items():
                    cur[k] = cp(v)
                st.commit_current_to_history()
                for k in CURRENT_STATE_KEYS:
                    if k in HISTORY_STATE_KEYS and cur[k] is not None:
                        hist[k].append(cp(cur[k]))
                try:
                    scr(st.get_history("u"))
                except ValueError:
                    pass
                d2 = {"u": rng.rand(N, 1), "logl": -rng.rand(N)}
                st.update_current(d2)
                for k, v in d2.items():
                    cur[k] = cp(v)
            elif op == "get_history_flat":
                if hist["logl"]:
                    scr(st.get_history("logl", flat=True))
            elif op == "get_history_index":
                if hist["u"]:
                    scr(st.get_history("u", index=0))
            elif op == "get_last":
                scr(st.get_last_history("logl"))
            elif op == "to_dict":
                r = st.to_dict()
                scr(r["_current"], 1)
                scr(r["_history"], 1)
            elif op in ("export_import", "export_from_dict"):
                r = st.to_dict()
                if op == "export_from_dict":
                    st2 = StateManager.from_dict(r)
                else:
                    st2 = StateManager(n_dim=1)
                    st2.update_from_dict(r)
                snap = {k: [cp(v) for v in vs] for k, vs in st2._history.items()}
                snapc = {k: cp(v) for k, v in st2._current.items()}
                scr(r["_current"], 1)
                scr(r["_history"], 1)
                for k in HISTORY_STATE_KEYS:
                    if len(snap[k]) != len(st2._history[k]) or any(
                            isinstance(a, np.ndarray) and not np.array_equal(a, b) for a, b in zip(snap[k], st2._history[k])):
                        return f"imported copy: history[{k}] changed after scribbling the exported dict"
                for k in CURRENT_STATE_KEYS:
                    if isinstance(snapc[k], np.ndarray) and not np.array_equal(snapc[k], st2._current[k]):
                        return f"imported copy: current[{k}] changed after scribbling the exported dict"
            elif op == "results":
                if hist["logl"] and hist["beta"] and len({len(b_) for b_ in hist["u"]}) <= 1:
                    r = st.compute_results()
                    ref = np.array(hist["u"])
                    if not np.array_equal(r["u"], ref):
                        return "results()['u'] differs from the committed history"
                    scr(r, 1)
                    r2 = st.compute_results()
                    if "__scribbled__" in r2 or not np.array_equal(r2["u"], ref):
                        return "results() returns the caller-modified dictionary of the previous call (cache returned by reference)"
            return same()

        for op in ("update", "commit", "update"):
            do(op)
        for i, op in enumerate(seq):
            why = do(op)
            if why:
                return i, op, why
        return None

    def replay(m, label, v):
        seq = []
        i = 0
        while f"op{i}" in m:
            seq.append(OPS[int(m[f"op{i}"])])
            i += 1
        r = run_concrete(seq)
        if r is None:
            return {"reproduced": False, "what": f"sequence {seq} keeps the real StateManager intact"}
        i, op, why = r
        culprit = seq[i - 1] if (op == "results" and i > 0 and seq[i - 1] == "results") else op
        # the aliasing operation is the one whose output was scribbled: find the earliest op after which state changed
        return {"reproduced": True, "signature": f"alias:{seq[i] if why.startswith('imported') else _culprit(seq, i)}",
                "payload": {"sequence": ["update", "commit", "update"] + seq, "failed_at": i, "why": why},
                "what": f"after the operations {['update', 'commit', 'update'] + seq[: i + 1]} with every returned array overwritten by the caller: {why}"}

    return Obligation(f"sequences-len{length}", harness, replay=replay,
                      encodes=[StateManager.get_current, StateManager.set_current, StateManager.update_current, StateManager.get_history,
                               StateManager.get_last_history, StateManager.commit_current_to_history, StateManager.to_dict,
                               StateManager.update_from_dict, StateManager.compute_results, StateManager._ensure_copy],
                      bounds=f"fixed prefix (update, commit, update) + every sequence of {length} operations over {len(OPS)} public operations, "
                             f"arrays of {N} rows with symbolic contents, every returned container scribbled",
                      stubs=["np.log/np.logaddexp -> exact log-domain algebra (for results())"], theory="QF_NRA", max_paths=40000, max_decisions=2000)


def _culprit(seq, i):
    """name the operation responsible: results() returns its cache, so a second results() shows the scribble."""
    op = seq[i]
    if op == "results":
        return "compute_results-cache"
    return op


def obligations(tier):
    return [make_sequences(1), make_sequences(2)] if tier == "quick" else [make_sequences(1), make_sequences(2), make_sequences(3)]
