"""C18 (part 1) - invalid configurations are rejected up front, before any likelihood call."""
from __future__ import annotations

import warnings

import numpy as np
import z3

import tempest.config as config_mod
import tempest.core as core_mod
from tempest.sampler import Sampler

from vf.engine.core import PathCtx, SymBool, HarnessError
from vf.engine.harness import Obligation
from vf.engine.real import SymInt, SymReal
from vf.engine.util import real, integer, boolean

PROPERTY_ID = "C18"
ASSUMPTIONS = [
    "only the first sentence of the property is claimed (rejection <=> documented constraint violated, no likelihood call during construction); "
    "'every valid combination runs to completion' is a whole-run property over the option product and is outside the claim",
    "symbolic ints/floats are int/float subclasses with symbolic comparisons so that isinstance checks behave as for real values",
]


class SInt(int):
    """int subclass (isinstance(x, int) holds) with symbolic value."""

    def __new__(cls, sym: SymInt, lo=-8, hi=8):
        o = int.__new__(cls, 0)
        o.sym, o.lo, o.hi = sym, lo, hi
        return o

    def _w(self, s):
        return SInt(s, self.lo * 4 - 4, self.hi * 4 + 4)

    def __add__(self, o):
        return self._w(self.sym + (o.sym if isinstance(o, SInt) else o))

    __radd__ = __add__

    def __sub__(self, o):
        return self._w(self.sym - (o.sym if isinstance(o, SInt) else o))

    def __rsub__(self, o):
        return self._w((o.sym if isinstance(o, SInt) else SymInt.lift(o)) - self.sym)

    def __mul__(self, o):
        if isinstance(o, SFloat):
            return o.sym * SymReal.lift(self.sym)
        if isinstance(o, (float, SymReal)):
            return SymReal.lift(self.sym) * o
        return self._w(self.sym * (o.sym if isinstance(o, SInt) else o))

    __rmul__ = __mul__

    def __neg__(self):
        return self._w(-self.sym)

    def __mod__(self, o):
        # Python modulo by a symbolic positive int: decided by forking on the (small, declared) modulus
        if isinstance(o, SInt):
            m = o.sym.resolve(o.lo, o.hi)
        else:
            m = int(o)
        if m <= 0:
            raise ZeroDivisionError("integer modulo by zero") if m == 0 else HarnessError("negative modulus")
        return self._w(self.sym % m)

    def __floordiv__(self, o):
        m = o.sym.resolve(o.lo, o.hi) if isinstance(o, SInt) else int(o)
        if m <= 0:
            raise ZeroDivisionError("integer division by zero") if m == 0 else HarnessError("negative divisor")
        return self._w(self.sym // m)

    def __abs__(self):
        v = self.sym.resolve(self.lo, self.hi)
        return abs(v)

    def __lt__(self, o):
        return self.sym < (o.sym if isinstance(o, SInt) else o)

    def __le__(self, o):
        return self.sym <= (o.sym if isinstance(o, SInt) else o)

    def __gt__(self, o):
        return self.sym > (o.sym if isinstance(o, SInt) else o)

    def __ge__(self, o):
        return self.sym >= (o.sym if isinstance(o, SInt) else o)

    def __eq__(self, o):
        if isinstance(o, SInt):
            return self.sym == o.sym
        if isinstance(o, (int, np.integer)):
            return self.sym == int(o)
        return False

    def __ne__(self, o):
        r = self.__eq__(o)
        return ~r if isinstance(r, SymBool) else (not r)

    def __hash__(self):
        return hash(self.sym.resolve(self.lo, self.hi))

    def __index__(self):
        return self.sym.resolve(self.lo, self.hi)

    __int__ = __index__

    def __bool__(self):
        return bool(self.sym != 0)

    def __format__(self, spec):
        return "<n>"

    def __repr__(self):
        return "<symbolic int>"

    __str__ = __repr__


class SFloat(float):
    def __new__(cls, sym: SymReal):
        o = float.__new__(cls, 0.0)
        o.sym = sym
        return o

    def __mul__(self, o):
        if isinstance(o, SInt):
            return self.sym * SymReal.lift(o.sym)
        return self.sym * (o.sym if isinstance(o, SFloat) else o)

    __rmul__ = __mul__

    def __lt__(self, o):
        return self.sym < o

    def __le__(self, o):
        return self.sym <= o

    def __gt__(self, o):
        return self.sym > o

    def __ge__(self, o):
        return self.sym >= o

    def __eq__(self, o):
        return self.sym == o

    def __ne__(self, o):
        return self.sym != o

    __hash__ = None

    def __format__(self, spec):
        return "<x>"

    def __repr__(self):
        return "<symbolic float>"

    __str__ = __repr__


class SStr:
    """symbolic option string; only equality with constants is needed."""

    def __init__(self, z):
        self.z = z

    def __eq__(self, o):
        if isinstance(o, str):
            return SymBool(self.z == z3.StringVal(o))
        return False

    def __ne__(self, o):
        return ~self.__eq__(o)

    __hash__ = None

    def __format__(self, spec):
        return "<s>"

    def __repr__(self):
        return "<symbolic str>"


class _MapPool:
    """a pool-like object (anything with .map), never started"""

    def map(self, f, xs):
        return list(map(f, xs))

    def __repr__(self):
        return "<pool-like object with .map>"


def make_config(variant):
    """variant: which list-valued/None-valued options are present."""
    has_np, has_vv, has_per, has_ref, blobs = variant
    pool_dim = blobs and not (has_np or has_vv or has_per or has_ref)  # the pool dimension: smallest blobs variant only (bounds the paths)

    def harness(ctx: PathCtx):
        calls = {"n": 0}

        def loglike(x, *a, **k):
            calls["n"] += 1
            return 0.0

        def prior(u):
            return u
        nd = integer(ctx, "n_dim", lo=-2, hi=3)
        n_dim = SInt(nd, -2, 3)
        npv = integer(ctx, "n_particles", lo=-2, hi=4) if has_np else None
        ess = real(ctx, "ess_ratio", lo=-2, hi=3)
        vv = real(ctx, "volume_variation", lo=-2, hi=3) if has_vv else None
        sample = ctx.register("sample", z3.String("sample"))
        resample = ctx.register("resample", z3.String("resample"))
        vec = boolean(ctx, "vectorize")
        per = [integer(ctx, f"per{i}", lo=-1, hi=3) for i in range(has_per)] if has_per else None
        ref = [integer(ctx, f"ref{i}", lo=-1, hi=3) for i in range(has_ref)] if has_ref else None
        # the pool option does not enter any documented constraint: the verdict must not depend on it (blobs variants only, to bound the paths)
        with_pool = bool(boolean(ctx, "with_pool")) if pool_dim else False
        kw = dict(pool=_MapPool() if with_pool else None, n_dim=n_dim, n_particles=SInt(npv, -2, 4) if has_np else None, ess_ratio=SFloat(ess),
                  volume_variation=SFloat(vv) if has_vv else None, sample=SStr(sample), resample=SStr(resample),
                  vectorize=vec, blobs_dtype="float64" if blobs else None,
                  periodic=[SInt(p, -1, 3) for p in per] if per else None,
                  reflective=[SInt(r, -1, 3) for r in ref] if ref else None)
        raised = None
        with warnings.catch_warnings():
            warnings.simplefilter("ignore")
            try:
                Sampler(prior, loglike, **kw)
            except (ValueError, TypeError, ZeroDivisionError) as e:
                raised = e
        valid = [nd.z >= 1, ess.n > 0,
                 z3.Or(sample == z3.StringVal("tpcn"), sample == z3.StringVal("rwm")),
                 z3.Or(resample == z3.StringVal("mult"), resample == z3.StringVal("syst"))]
        if has_np:
            valid.append(npv.z >= 1)
        if has_vv:
            valid.append(vv.n > 0)
        if blobs:
            valid.append(z3.Not(vec.z))
        for lst in (per, ref):
            if lst:
                valid += [z3.And(p.z >= 0, p.z < nd.z) for p in lst]
        if per and ref:
            valid += [p.z != r.z for p in per for r in ref]
        ctx.check("rejected-iff-a-documented-constraint-is-violated", z3.And(*valid) == z3.BoolVal(raised is None),
                  detail=str(raised)[:200] if raised else None)
        ctx.check("no-likelihood-call-during-construction", z3.BoolVal(calls["n"] == 0))
        return raised is None

    def concrete_kw(m):
        kw = dict(pool=_MapPool() if (pool_dim and bool(m.get("with_pool", False))) else None,
                  n_dim=int(m["n_dim"]), n_particles=int(m["n_particles"]) if has_np else None, ess_ratio=float(m["ess_ratio"]),
                  volume_variation=float(m["volume_variation"]) if has_vv else None, sample=str(m["sample"]), resample=str(m["resample"]),
                  vectorize=bool(m["vectorize"]), blobs_dtype="float64" if blobs else None,
                  periodic=[int(m[f"per{i}"]) for i in range(has_per)] if has_per else None,
                  reflective=[int(m[f"ref{i}"]) for i in range(has_ref)] if has_ref else None)
        return kw

    def is_valid(kw):
        ok = kw["n_dim"] >= 1 and kw["ess_ratio"] > 0 and kw["sample"] in ("tpcn", "rwm") and kw["resample"] in ("mult", "syst")
        if kw["n_particles"] is not None:
            ok = ok and kw["n_particles"] >= 1
        if kw["volume_variation"] is not None:
            ok = ok and kw["volume_variation"] > 0
        if kw["blobs_dtype"] is not None:
            ok = ok and not kw["vectorize"]
        for lst in (kw["periodic"], kw["reflective"]):
            if lst:
                ok = ok and all(0 <= i < kw["n_dim"] for i in lst)
        if kw["periodic"] and kw["reflective"]:
            ok = ok and not set(kw["periodic"]) & set(kw["reflective"])
        return ok

    def run_concrete(m):
        kw = concrete_kw(m)
        calls = {"n": 0}

        def ll(x):
            calls["n"] += 1
            return 0.0
        raised = None
        with warnings.catch_warnings():
            warnings.simplefilter("ignore")
            try:
                Sampler(lambda u: u, ll, **kw)
            except Exception as e:
                raised = e
        return kw, raised, calls["n"]

    def replay(m, label, v):
        kw, raised, ncalls = run_concrete(m)
        valid = is_valid(kw)
        bad = (valid != (raised is None)) if label.startswith("rejected") else ncalls > 0
        return {"reproduced": bool(bad), "signature": f"config:{'accepted-invalid' if (raised is None and not valid) else 'rejected-valid' if bad else label}",
                "payload": {k: (repr(v) if isinstance(v, _MapPool) else v) for k, v in kw.items()},
                "what": f"Sampler(**{kw}) -> {'accepted' if raised is None else type(raised).__name__ + ': ' + str(raised)[:120]}; documented constraints say {'valid' if valid else 'invalid'}"}

    def validate(w, ret):
        try:
            kw, raised, _ = run_concrete(w)
        except Exception as e:
            return None, str(e)
        return ((raised is None) == ret), f"concrete constructor {'accepted' if raised is None else 'rejected'} {kw}, symbolic path says accepted={ret}"

    name = f"config-np{int(has_np)}-vv{int(has_vv)}-per{has_per}-ref{has_ref}-{'blobs' if blobs else 'noblobs'}"
    return Obligation(name, harness, replay=replay, validate=validate,
                      encodes=[Sampler.__init__, config_mod.SamplerConfig.__post_init__, config_mod.SamplerConfig.validate, core_mod.SamplerCore.__init__],
                      bounds="n_dim in [-2,3], n_particles in [-2,4] or None, ess_ratio/volume_variation real in [-2,3] or None, "
                             f"sample/resample arbitrary strings, vectorize symbolic, pool None or a pool-like object (variant np0-vv0-per0-ref0-blobs only), periodic list length {has_per}, reflective list length {has_ref} with entries in [-1,3]",
                      theory="QF_LIA/LRA/S", max_paths=90000)


def make_nonnumeric():
    """one non-int / non-numeric concrete representative per field (isinstance branches)."""
    cases = [("n_dim", 2.5), ("n_dim", "3"), ("n_particles", 2.5), ("ess_ratio", "2"), ("volume_variation", "1"),
             ("periodic", [0.0]), ("reflective", ["0"]), ("sample", None), ("resample", 3)]

    def harness(ctx: PathCtx):
        x = boolean(ctx, "dummy")
        bad = []
        calls = {"n": 0}

        def ll(xx):
            calls["n"] += 1
            return 0.0
        for field, val in cases:
            kw = dict(n_dim=2)
            kw[field] = val
            try:
                with warnings.catch_warnings():
                    warnings.simplefilter("ignore")
                    Sampler(lambda u: u, ll, **kw)
                bad.append(f"{field}={val!r} accepted")
            except Exception:
                pass
        ctx.check("non-numeric-values-rejected", z3.BoolVal(not bad), detail=bad)
        ctx.check("no-likelihood-call-during-construction", z3.BoolVal(calls["n"] == 0))
        return None

    def replay(m, label, v):
        return {"reproduced": True, "signature": "config:non-numeric-accepted", "what": f"a non-numeric option value was accepted: {v.get('detail')}"}

    return Obligation("config-non-numeric-representatives", harness, replay=replay, encodes=[config_mod.SamplerConfig.validate],
                      bounds=f"{len(cases)} concrete non-int / non-numeric representatives, one factor at a time", theory="concrete")


def make_wiring():
    """a slice of the running clause that needs no run: after an accepted construction the pipeline steps agree on clustering - every step
    told to cluster holds the clustering model (with fit/predict), all such steps share ONE model, and no step holds one when clustering is
    off. Options: clustering symbolic, n_max_clusters None or a symbolic positive integer, kernel/resampler symbolic."""

    def harness(ctx: PathCtx):
        clustering = bool(boolean(ctx, "clustering"))
        has_cap = bool(boolean(ctx, "has_n_max_clusters"))
        cap = integer(ctx, "n_max_clusters", lo=1, hi=3).resolve(1, 3) if has_cap else None
        sample = "rwm" if bool(boolean(ctx, "sample_is_rwm")) else "tpcn"
        with warnings.catch_warnings():
            warnings.simplefilter("ignore")
            smp = Sampler(lambda u: u, lambda x: 0.0, n_dim=2, clustering=clustering, n_max_clusters=cap, sample=sample)
        core = smp._core
        steps = {n_: getattr(core, n_) for n_ in ("reweighter", "trainer", "resampler", "mutator") if hasattr(core, n_)}
        told = {n_: bool(getattr(o, "clustering")) for n_, o in steps.items() if hasattr(o, "clustering")}
        held = {n_: getattr(o, "clusterer") for n_, o in steps.items() if hasattr(o, "clusterer")}
        ctx.check("steps-are-told-the-configured-clustering-flag", z3.BoolVal(all(v == clustering for v in told.values()) and len(told) >= 1), detail=told)
        ok = all((held.get(n_) is not None and hasattr(held[n_], "predict") and hasattr(held[n_], "fit")) for n_, v in told.items() if v and n_ in held)
        ctx.check("a-step-told-to-cluster-holds-a-clustering-model", z3.BoolVal(bool(ok)), detail={k: type(v).__name__ for k, v in held.items()})
        models = [id(v) for n_, v in held.items() if v is not None]
        ctx.check("all-steps-share-one-clustering-model", z3.BoolVal(len(set(models)) <= 1))
        return None

    def replay(m, label, v):
        clustering = bool(m.get("clustering", True))
        cap = int(m.get("n_max_clusters", 1)) if bool(m.get("has_n_max_clusters", False)) else None
        sample = "rwm" if bool(m.get("sample_is_rwm", False)) else "tpcn"
        err = None
        saved = np.random.get_state()
        try:
            with warnings.catch_warnings():
                warnings.simplefilter("ignore")
                np.random.seed(3)
                smp = Sampler(lambda u: u, lambda x: -0.5 * float(np.sum(((x - 0.5) / 0.1) ** 2)), n_dim=2, n_particles=32, clustering=clustering, n_max_clusters=cap, sample=sample)
                smp.run(n_total=64, progress=False)
        except Exception as e:
            err = e
        finally:
            np.random.set_state(saved)
        return {"reproduced": err is not None and not isinstance(err, np.linalg.LinAlgError), "signature": "config:accepted-but-steps-disagree-on-clustering",
                "payload": {"clustering": clustering, "n_max_clusters": cap, "sample": sample, "error": repr(err)},
                "what": f"Sampler(n_dim=2, clustering={clustering}, n_max_clusters={cap}, sample={sample!r}) is accepted; run() -> {type(err).__name__ + ': ' + str(err)[:150] if err else 'completes'}"}

    return Obligation("wiring-clustering", harness, replay=replay, encodes=[core_mod.SamplerCore.__init__],
                      bounds="clustering symbolic, n_max_clusters None or in [1,3], kernel symbolic, other options default, n_dim=2",
                      stubs=["replay runs the accepted configuration on a Gaussian target (32 particles, n_total=64); LinAlgError is the separate known finding"], theory="QF_LIA")


def obligations(tier):
    vs = [(1, 1, 0, 0, False), (0, 0, 1, 1, False), (0, 0, 0, 0, True), (0, 0, 2, 0, False)]
    if tier == "thorough":
        vs += [(1, 1, 1, 1, False), (0, 1, 1, 2, False), (1, 0, 0, 2, True), (0, 0, 2, 2, False)]
    # a slice of the running clause ("every combination of valid option values runs to completion without raising"): the training step
    # under every partition of the pool (C14's harness; reports a known finding)
    from vf.props.c14 import make_completes
    return [make_config(v) for v in vs] + [make_nonnumeric(), make_wiring(), make_completes(1, 4, 2)]
