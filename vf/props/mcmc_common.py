"""Shared harness pieces for the properties that execute the real MCMC kernels symbolically
(C03, C07, C10, C13, C14): uninterpreted user callbacks, symbolic mode statistics, the random stub."""
from __future__ import annotations

import math
from fractions import Fraction
from typing import List, Optional

import numpy as np
import z3

import tempest.mcmc as mcmc
from tempest.modes import ModeStatistics

from vf.engine.core import PathCtx, SymBool, cur
from vf.engine.real import SymReal, SymInt, LogVal, CONFIG, abstract_arg
from vf.engine.arr import NpProxy, RandomStub, patched, sarr, SymArray
from vf.engine.util import real, eq, le, lt


class Callbacks:
    """prior_transform / log_likelihood / blobs as uninterpreted functions of their argument."""

    def __init__(self, d: int, blobs: bool = False, inf: bool = False, tag: str = "", shift=None, vectorized_wrapper=True):
        R = z3.RealSort()
        self.d = d
        self.blobs = blobs
        self.inf = inf
        self.PT = [z3.Function(f"PT{j}", *([R] * (d + 1))) for j in range(d)]
        self.LL = z3.Function("LL", *([R] * (d + 1)))
        self.BL = z3.Function("BL", *([R] * (d + 1)))
        self.INF = z3.Function("INF", *([R] * d + [z3.BoolSort()]))
        self.n_like_points = 0
        self.like_calls: List[int] = []
        self.shift = shift

    def pt_terms(self, u):
        args = [abstract_arg(SymReal.lift(v).term()) for v in u]
        return [SymReal(f(*args)) for f in self.PT]

    def prior_transform(self, u):
        return sarr(self.pt_terms(list(np.asarray(u, dtype=object).reshape(-1))))

    def ll_term(self, x):
        args = [abstract_arg(SymReal.lift(v).term()) for v in x]
        return SymReal(self.LL(*args))

    def bl_term(self, x):
        args = [abstract_arg(SymReal.lift(v).term()) for v in x]
        return SymReal(self.BL(*args))

    def inf_term(self, x):
        args = [abstract_arg(SymReal.lift(v).term()) for v in x]
        return self.INF(*args)

    def log_likelihood(self, x):
        """the wrapped likelihood the steps receive: batch in, (logl, blobs|None) out."""
        x = np.asarray(x, dtype=object)
        n = x.shape[0]
        self.n_like_points += n
        self.like_calls.append(n)
        out = []
        for i in range(n):
            row = list(x[i])
            if self.inf and bool(SymBool(self.inf_term(row))):
                out.append(float("-inf"))
            else:
                v = self.ll_term(row)
                if self.shift is not None:
                    v = v + self.shift
                out.append(v)
        logl = sarr(out)
        if self.blobs:
            return logl, sarr([self.bl_term(list(x[i])) for i in range(n)])
        return logl, None

    # ---- coherence predicates
    def coherent_row(self, u, x, l, b=None, shift=None):
        cs = []
        pt = self.pt_terms(u)
        for j in range(self.d):
            cs.append(eq(x[j], pt[j]))
            cs.append(le(0, u[j]))
            cs.append(le(u[j], 1))
        if isinstance(l, float):
            cs.append(z3.BoolVal(False))  # -inf stored
        else:
            ll = self.ll_term(x)
            if self.shift is not None:
                ll = ll + self.shift
            cs.append(eq(l, ll))
            if self.inf:
                cs.append(z3.Not(self.inf_term(x)))
        if b is not None:
            cs.append(eq(b, self.bl_term(x)))
        return z3.And(*cs)


def sym_mode_stats(ctx: PathCtx, d: int, K: int, nu=None, tag="") -> ModeStatistics:
    """ModeStatistics whose fields are symbolic: Cholesky factor L (positive diagonal), Sigma = L L^T, closed-form
    inverse, symbolic means, dof nu (given concrete values or symbolic > 0). Built without running __init__'s linalg."""
    ms = object.__new__(ModeStatistics)
    means, covs, invs, chols, dofs = [], [], [], [], []
    for k in range(K):
        mu = [real(ctx, f"mu{tag}{k}_{j}") for j in range(d)]
        if d == 1:
            l00 = real(ctx, f"L{tag}{k}_00", lo=0, lo_strict=True)
            L = [[l00]]
            S = [[l00 * l00]]
            Si = [[1 / (l00 * l00)]]
        elif d == 2:
            a = real(ctx, f"L{tag}{k}_00", lo=0, lo_strict=True)
            b = real(ctx, f"L{tag}{k}_10")
            e = real(ctx, f"L{tag}{k}_11", lo=0, lo_strict=True)
            L = [[a, SymReal.const(0)], [b, e]]
            S = [[a * a, a * b], [a * b, b * b + e * e]]
            det = (a * a) * (e * e)
            Si = [[(b * b + e * e) / det, -(a * b) / det], [-(a * b) / det, (a * a) / det]]
        else:
            raise ValueError("d > 2")
        means.append(mu)
        covs.append(S)
        invs.append(Si)
        chols.append(L)
        if nu is None:
            dofs.append(real(ctx, f"nu{tag}{k}", lo=0, lo_strict=True))
        else:
            dofs.append(nu[k] if isinstance(nu, (list, tuple)) else nu)
    ms.labels = np.arange(K)
    ms.means = sarr(means)
    ms.covariances = sarr(covs)
    ms.inv_covariances = sarr(invs)
    ms.chol_covariances = sarr(chols)
    ms.degrees_of_freedom = sarr(dofs) if any(isinstance(v, SymReal) for v in dofs) else np.array([float(v) for v in dofs])
    return ms


class Draws:
    """provider for RandomStub: fresh symbols per call, constrained by the documented contract only."""

    def __init__(self, ctx: PathCtx, prefix="", choice_domain=None):
        self.ctx = ctx
        self.prefix = prefix
        self.counts = {}
        self.records = []

    def _n(self, kind):
        self.counts[kind] = self.counts.get(kind, 0) + 1
        return self.counts[kind] - 1

    def __call__(self, kind, rec):
        ctx = self.ctx
        i = self._n(kind)
        self.records.append(rec)
        if kind == "randn":
            shape = rec["shape"]
            n = int(np.prod(shape)) if shape else 1
            vals = [real(ctx, f"{self.prefix}z{i}_{j}") for j in range(n)]
            return sarr(vals).reshape(shape) if shape else vals[0]
        if kind == "rand":
            shape = rec["shape"]
            n = int(np.prod(shape)) if shape else 1
            vals = [real(ctx, f"{self.prefix}r{i}_{j}", lo=0, hi=1, hi_strict=True) for j in range(n)]
            return sarr(vals).reshape(shape) if shape else vals[0]
        if kind == "random":
            return real(ctx, f"{self.prefix}u0_{i}", lo=0, hi=1, hi_strict=True)
        if kind == "gamma":
            return real(ctx, f"{self.prefix}g{i}", lo=0, lo_strict=True)
        if kind == "choice":
            a = rec["a"]
            size = rec["size"]
            pool = list(range(a)) if isinstance(a, (int, np.integer)) else [int(v) for v in a]
            n = int(size) if size is not None else 1
            out = []
            for j in range(n):
                zi = ctx.register(f"{self.prefix}c{i}_{j}", z3.Int(f"{self.prefix}c{i}_{j}"))
                ctx.assume(z3.And(zi >= 0, zi < len(pool)))
                out.append(pool[SymInt(zi).resolve(0, len(pool) - 1)])
            return np.array(out, dtype=int) if size is not None else out[0]
        if kind == "seed":
            return None
        raise AssertionError(kind)


def exp_mixed(a):
    """np.exp on arrays that mix symbolic reals with plain floats (e.g. exp(-inf) = 0 for a zero-likelihood proposal)."""
    if isinstance(a, np.ndarray) and a.dtype == object:
        out = np.empty(a.shape, dtype=object)
        for idx in np.ndindex(a.shape):
            v = a[idx]
            out[idx] = v.exp() if hasattr(v, "exp") else float(np.exp(v))
        return out.view(SymArray) if a.ndim else out.item()
    if hasattr(a, "exp"):
        return a.exp()
    return np.exp(a)


def mcmc_proxy(stub: RandomStub):
    return NpProxy(random=stub, object_constructors=True,
                   overrides={"nan_to_num": lambda a, nan=0.0, **k: a, "exp": exp_mixed,
                              "isinf": isinf_model, "isfinite": isfinite_model})


def isinf_model(a):
    if isinstance(a, np.ndarray):
        return np.array([isinstance(v, float) and math.isinf(v) for v in a.reshape(-1)], dtype=bool).reshape(a.shape)
    return isinstance(a, float) and math.isinf(a)


def isfinite_model(a):
    if isinstance(a, np.ndarray):
        return np.array([not (isinstance(v, float) and not math.isfinite(v)) for v in a.reshape(-1)], dtype=bool).reshape(a.shape)
    return not (isinstance(a, float) and not math.isfinite(a))


class exp_as_uf:
    """inside: np.exp of a plain symbolic real is an uninterpreted positive function (sound over-approximation).
    abstract=True additionally forgets the arithmetic of compound arguments of uninterpreted functions."""

    def __init__(self, abstract=False):
        self.abstract = abstract

    def __enter__(self):
        self.old_abs = CONFIG["abstract_args"]
        CONFIG["abstract_args"] = self.abstract
        self.old = (CONFIG["exp_uf"], CONFIG["log_uf"])
        CONFIG["exp_uf"] = z3.Function("EXP", z3.RealSort(), z3.RealSort())
        CONFIG["log_uf"] = z3.Function("LOG", z3.RealSort(), z3.RealSort())

    def __exit__(self, *a):
        CONFIG["exp_uf"], CONFIG["log_uf"] = self.old
        CONFIG["abstract_args"] = self.old_abs


def run_one_step(ctx, kernel, u, x, logl, blobs, assignments, beta, ms, cb: Callbacks, periodic=None, reflective=None,
                 max_draw_calls=8, draws: Optional[Draws] = None):
    """one kernel iteration of the real parallel_mcmc (n_steps = n_max = 1)."""
    draws = draws or Draws(ctx)
    stub = RandomStub(draws, max_calls=max_draw_calls)
    with patched(mcmc, np=mcmc_proxy(stub)):
        out = mcmc.parallel_mcmc(u=u, x=x, logl=logl, blobs=blobs, assignments=assignments, beta=beta, mode_stats=ms,
                                 log_likelihood=cb.log_likelihood, prior_transform=cb.prior_transform, progress_bar=None,
                                 n_steps=1, n_max=1, sample=kernel, periodic=periodic, reflective=reflective, verbose=False)
    return out, stub
