"""C08 - checkpoints restore exactly, resume continues the run, saves are crash-safe."""
from __future__ import annotations

import os
import sys
import tempfile
import types
from pathlib import Path

import numpy as np
import z3

import tempest.core as core_mod
import tempest.state_manager as sm_mod
from tempest.sampler import Sampler
from tempest.state_manager import CURRENT_STATE_KEYS, HISTORY_STATE_KEYS

from vf.engine.core import PathCtx, HarnessError
from vf.engine.harness import Obligation
from vf.engine.real import LogVal, SymInt, SymReal
from vf.engine.arr import patched, sarr
from vf.engine.util import real, integer, boolean, eq
from vf.props.c17 import val_eq

PROPERTY_ID = "C08"
ASSUMPTIONS = [
    "the serializer is a contract double: load(dump(v)) is a deep by-value copy of v (dill's byte format is outside the claim)",
    "file system double: open('wb') truncates at once, writes reach the disk as an arbitrary prefix, fsync makes written bytes durable, "
    "rename/replace is atomic (POSIX); a crash may happen before any operation or inside a write",
    "the remainder of a resumed run is covered step-wise by C05/C07/C17; here: restored state, iteration/call/temperature bookkeeping at the loop head",
]

NBYTES = 1000


def by_value(v):
    if isinstance(v, np.ndarray):
        return v.copy()
    if isinstance(v, dict):
        return {k: by_value(x) for k, x in v.items()}
    if isinstance(v, list):
        return [by_value(x) for x in v]
    if isinstance(v, tuple):
        return tuple(by_value(x) for x in v)
    return v


class Blob:
    def __init__(self, payload):
        self.payload = payload


class FObj:
    def __init__(self, blob=None, total=0, written=0, durable=0, tag="new"):
        self.blob, self.total, self.written, self.durable, self.tag = blob, total, written, durable, tag


class FakeFS:
    """recording file-system double shared by the open()/os doubles."""

    def __init__(self):
        self.files = {}
        self.trace = []
        self.fds = {}

    def open(self, path, mode="r", *a, **k):
        name = str(path)
        if "w" in mode:
            self.trace.append(("open_w", name))
            self.files[name] = FObj()
        else:
            if name not in self.files:
                raise FileNotFoundError(name)
        return Handle(self, name, mode)

    # os doubles
    def fsync(self, fd):
        name = self.fds[fd]
        self.trace.append(("fsync", name))
        f = self.files[name]
        f.durable = f.written

    def rename(self, a, b):
        a, b = str(a), str(b)
        self.trace.append(("rename", a, b))
        self.files[b] = self.files.pop(a)

    replace = rename

    # tempfile / shutil doubles (documented semantics)
    def named_temporary_file(self, mode="w+b", buffering=-1, encoding=None, newline=None, suffix=None, prefix=None, dir=None, delete=True, **k):
        d = str(dir) if dir is not None else "/TMPDIR-possibly-another-filesystem"
        self.n_tmp = getattr(self, "n_tmp", 0) + 1
        name = os.path.join(d, f"{prefix or 'tmp'}{self.n_tmp:04d}{suffix or ''}")
        h = self.open(name, "wb")
        h.name = name
        return h

    def mkstemp(self, suffix=None, prefix=None, dir=None, text=False):
        """tempfile.mkstemp: an open descriptor on a new file in `dir` (default: the system temp directory, possibly another file system)"""
        d = str(dir) if dir is not None else "/TMPDIR-possibly-another-filesystem"
        self.n_tmp = getattr(self, "n_tmp", 0) + 1
        name = os.path.join(d, f"{prefix or 'tmp'}{self.n_tmp:04d}{suffix or ''}")
        h = self.open(name, "wb")
        h.name = name
        self.pending_fd = getattr(self, "pending_fd", {})
        self.pending_fd[h.fd] = h
        return h.fd, name

    def fdopen(self, fd, mode="r", *a, **k):
        h = getattr(self, "pending_fd", {}).pop(fd, None)
        if h is None:
            raise HarnessError("os.fdopen of a descriptor that mkstemp did not hand out")
        return h

    def close_fd(self, fd):
        h = getattr(self, "pending_fd", {}).pop(fd, None)
        if h is not None:
            h.close()

    def move(self, src, dst, *a, **k):
        """shutil.move: os.rename when source and destination are on one file system, otherwise copy (open dst for writing,
        stream the data) and unlink the source. Different directories may be different file systems."""
        src, dst = str(src), str(dst)
        if os.path.dirname(src) == os.path.dirname(dst):
            return self.rename(src, dst)
        f = self.files[src]
        self.trace.append(("open_w", dst))
        self.files[dst] = FObj()
        self.trace.append(("write", dst, NBYTES))
        g = self.files[dst]
        g.blob, g.total, g.written = f.blob, NBYTES, NBYTES
        self.trace.append(("close", dst))
        self.files.pop(src, None)
        return dst


class Handle:
    def __init__(self, fs, name, mode):
        self.fs, self.name, self.mode = fs, name, mode
        self.fd = 1000 + len(fs.fds)
        fs.fds[self.fd] = name

    def __enter__(self):
        return self

    def __exit__(self, *a):
        self.close()
        return False

    def write(self, blob):
        f = self.fs.files[self.name]
        if isinstance(blob, BlobBytes):
            blob = Blob(blob.payload)  # f.write(dill.dumps(obj)) is the same stream as dill.dump(obj, f)
        f.blob = blob
        f.total = NBYTES
        f.written = NBYTES
        self.fs.trace.append(("write", self.name, NBYTES))
        return NBYTES

    def write_partial(self):
        """a serializer that fails part-way leaves a truncated stream behind"""
        f = self.fs.files[self.name]
        f.blob = None
        f.total = NBYTES
        f.written = NBYTES // 2
        self.fs.trace.append(("write", self.name, NBYTES // 2))

    def read(self):
        return self.fs.files[self.name].blob

    def flush(self):
        self.fs.trace.append(("flush", self.name))

    def fileno(self):
        return self.fd

    def close(self):
        self.fs.trace.append(("close", self.name))


def _find_pool(obj, depth=0, seen=None):
    """contract of real picklers: process-pool objects cannot be pickled."""
    seen = seen if seen is not None else set()
    if id(obj) in seen or depth > 9:
        return None
    seen.add(id(obj))
    cname = type(obj).__name__
    if cname in ("PoolDouble", "ExecutorDouble", "Pool") or getattr(obj, "_is_pool_double", False):
        return obj
    d = getattr(obj, "__dict__", None)
    items = list(d.values()) if isinstance(d, dict) else []
    if isinstance(obj, dict):
        items += list(obj.values())
    if isinstance(obj, (list, tuple)):
        items += list(obj)
    if getattr(obj, "__self__", None) is not None:  # bound method (e.g. a cached pool.map)
        items.append(obj.__self__)
    for v in items:
        if isinstance(v, (int, float, str, bytes, bool, type(None), np.ndarray)):
            continue
        r = _find_pool(v, depth + 1, seen)
        if r is not None:
            return r
    return None


class BlobBytes(bytes):
    """what the serializer double's dumps() returns: opaque bytes that remember the object graph they stand for"""
    payload = None


def _dumps(obj, *a, **k):
    if _find_pool(obj) is not None:
        raise NotImplementedError("pool objects cannot be passed between processes or pickled")
    bb = BlobBytes(b"<pickled object>")
    bb.payload = by_value(obj) if isinstance(obj, (dict, list, tuple)) else obj
    return bb


def fake_dill():
    mod = types.ModuleType("dill")
    mod.dumps = _dumps
    mod.loads = lambda b, *a, **k: (by_value(b.payload) if isinstance(b, BlobBytes) else None)

    def dump(obj=None, file=None, *a, **k):
        if _find_pool(obj) is not None:
            # the real pickler fails part-way through the stream: whatever was written so far stays in the file
            file.write_partial()
            raise NotImplementedError("pool objects cannot be passed between processes or pickled")
        file.write(Blob(by_value(obj)))

    def load(file=None, *a, **k):
        b = file.read()
        if not isinstance(b, Blob):
            raise EOFError("truncated checkpoint")
        return by_value(b.payload)
    mod.dump, mod.load = dump, load
    return mod


class io_doubles:
    def __init__(self, fs):
        self.fs = fs

    def __enter__(self):
        self.saved = sys.modules.get("dill")
        sys.modules["dill"] = fake_dill()
        fake_os = types.SimpleNamespace(fsync=self.fs.fsync, rename=self.fs.rename, replace=self.fs.replace, path=os.path,
                                        remove=lambda p: self.fs.files.pop(str(p), None), fspath=os.fspath, fdopen=self.fs.fdopen, close=self.fs.close_fd,
                                        unlink=lambda p: self.fs.files.pop(str(p), None))
        fake_tempfile = types.SimpleNamespace(NamedTemporaryFile=self.fs.named_temporary_file, gettempdir=lambda: "/TMPDIR-possibly-another-filesystem",
                                              mkstemp=self.fs.mkstemp)
        fake_shutil = types.SimpleNamespace(move=self.fs.move, copyfile=self.fs.move, copy=self.fs.move, copy2=self.fs.move)
        self.ctxs = [patched(core_mod, open=self.fs.open, os=fake_os, dill=sys.modules["dill"], tempfile=fake_tempfile, shutil=fake_shutil),
                     patched(sm_mod, open=self.fs.open, os=fake_os, dill=sys.modules["dill"], tempfile=fake_tempfile, shutil=fake_shutil)]
        for c in self.ctxs:
            c.__enter__()

    def __exit__(self, *a):
        for c in reversed(self.ctxs):
            c.__exit__(*a)
        if self.saved is not None:
            sys.modules["dill"] = self.saved
        else:
            sys.modules.pop("dill", None)


def _pt(u):
    return u


def _ll(x):
    return 0.0


def sym_filled_sampler(ctx, nb, blobs, pool=None, tag=""):
    smp = Sampler(_pt, _ll, n_dim=1, n_particles=2, clustering=False, blobs_dtype="float64" if blobs else None, pool=pool,
                  random_state=7, output_dir=tempfile.gettempdir())
    st = smp.state
    k = 0
    for t in range(nb):
        cur = {"u": sarr([[real(ctx, f"{tag}u{t}_{i}", lo=0, hi=1)] for i in range(2)]),
               "x": sarr([[real(ctx, f"{tag}x{t}_{i}")] for i in range(2)]),
               "logl": sarr([real(ctx, f"{tag}l{t}_{i}") for i in range(2)]),
               "beta": real(ctx, f"{tag}beta{t}", lo=0, hi=1), "logz": real(ctx, f"{tag}logz{t}"),
               "iter": t + 1, "calls": 2 * (t + 1), "ess": real(ctx, f"{tag}ess{t}", lo=1)}
        if blobs:
            cur["blobs"] = sarr([real(ctx, f"{tag}b{t}_{i}") for i in range(2)])
        st.update_current(cur)
        st.commit_current_to_history()
    it = integer(ctx, "iter", lo=0, hi=5)
    calls = integer(ctx, "calls", lo=0, hi=10 ** 6)
    st._current["iter"] = it
    st._current["calls"] = calls
    st._current["beta"] = real(ctx, "beta_now", lo=0, hi=1)
    st._current["assignments"] = np.zeros(2, dtype=int)
    st._current.update({"steps": 3, "acceptance": 0.25, "efficiency": 0.5})  # set by every real iteration
    smp._core.n_total = 64
    return smp, it, calls


def snapshot(st):
    return {"cur": {k: by_value(v) for k, v in st._current.items()}, "hist": {k: [by_value(x) for x in v] for k, v in st._history.items()}}


def make_restore(nb, blobs):
    def harness(ctx: PathCtx):
        fs = FakeFS()
        A, it, calls = sym_filled_sampler(ctx, nb, blobs)
        snap = snapshot(A.state)
        path = Path(tempfile.gettempdir()) / "vf_c08" / "ps_3.state"
        with io_doubles(fs):
            A.save_state(path)
            B = Sampler(_pt, _ll, n_dim=1, n_particles=2, clustering=False, blobs_dtype="float64" if blobs else None, random_state=7)
            rs = np.random.get_state()
            try:
                B.load_state(path)
            finally:
                np.random.set_state(rs)
            conds = [val_eq_any(snap["cur"][k], B.state._current[k]) for k in CURRENT_STATE_KEYS]
            ctx.check("restored-current-state==saved", z3.And(*conds))
            hc = []
            for k in HISTORY_STATE_KEYS:
                hc.append(z3.BoolVal(len(snap["hist"][k]) == len(B.state._history[k])))
                hc += [val_eq_any(a, b) for a, b in zip(snap["hist"][k], B.state._history[k])]
            ctx.check("restored-history==saved", z3.And(*hc), detail={"saved_batches": nb, "restored_batches": len(B.state._history["beta"])})
            ctx.check("saving-does-not-change-the-live-state", z3.And(*[val_eq_any(snap["cur"][k], A.state._current[k]) for k in CURRENT_STATE_KEYS]))
            # resume bookkeeping at the loop head
            C = Sampler(_pt, _ll, n_dim=1, n_particles=2, clustering=False, blobs_dtype="float64" if blobs else None, random_state=7)
            rs = np.random.get_state()
            try:
                C._core._initialize_from_resume(path)
            finally:
                np.random.set_state(rs)
            t0 = C._core.t0
            ctx.check("resume-continues-iteration-numbering", (SymInt.lift(t0) == it).z if not isinstance(t0, SymInt) else (t0 == it).z)
            ctx.check("resume-continues-call-counting", val_eq_any(C.state._current["calls"], calls))
            ctx.check("resume-continues-temperature", val_eq_any(C.state._current["beta"], snap["cur"]["beta"]))
            ctx.check("resume-restores-history", z3.BoolVal(C.state.get_history_length() == nb))
        return None

    def replay(m, label, v):
        import dill  # real serializer, real files
        d = tempfile.mkdtemp(prefix="vf_c08_")
        try:
            s0 = np.random.get_state()
            np.random.seed(3)
            A = Sampler(lambda u: u, lambda x: -0.5 * np.sum(((x - 0.5) / 0.2) ** 2, axis=1), n_dim=2, n_particles=16, vectorize=True,
                        clustering=False, random_state=5, output_dir=d)
            A._core._initialize_fresh()
            for _ in range(nb + 1):
                A.sample()
            path = os.path.join(d, "ck.state")
            A.save_state(path)
            B = Sampler(lambda u: u, lambda x: -0.5 * np.sum(((x - 0.5) / 0.2) ** 2, axis=1), n_dim=2, n_particles=16, vectorize=True,
                        clustering=False, random_state=5, output_dir=d)
            B.load_state(path)
            np.random.set_state(s0)
            la, lb = A.state.get_history_length(), B.state.get_history_length()
            same_cur = all(np.array_equal(A.state.get_current(k), B.state.get_current(k)) for k in ("u", "x", "logl", "beta", "iter", "calls"))
            same_hist = la == lb and all(np.array_equal(A.state.get_history("logl", index=i), B.state.get_history("logl", index=i)) for i in range(la))
            C = Sampler(lambda u: u, lambda x: -0.5 * np.sum(((x - 0.5) / 0.2) ** 2, axis=1), n_dim=2, n_particles=16, vectorize=True,
                        clustering=False, random_state=5, output_dir=d)
            C._core._initialize_from_resume(path)
            t0_ok = C._core.t0 == A.state.get_current("iter")
            bad = not (same_cur and same_hist and t0_ok)
            return {"reproduced": bool(bad), "signature": "restore:state-not-restored",
                    "payload": {"saved_history_batches": la, "restored_history_batches": lb, "current_equal": bool(same_cur), "t0": int(C._core.t0),
                                "saved_iter": int(A.state.get_current("iter"))},
                    "what": f"checkpoint written after {la} iterations and loaded into a fresh sampler: restored history has {lb} batches, "
                            f"current state equal={same_cur}, resume t0={C._core.t0} vs saved iter={A.state.get_current('iter')}"}
        finally:
            import shutil
            shutil.rmtree(d, ignore_errors=True)

    return Obligation(f"restore-nb{nb}-{'blobs' if blobs else 'noblobs'}", harness, replay=replay,
                      encodes=[core_mod.SamplerCore.save_sampler_state, core_mod.SamplerCore.load_sampler_state,
                               core_mod.SamplerCore._initialize_from_resume, sm_mod.StateManager.to_dict, sm_mod.StateManager.update_from_dict],
                      bounds=f"{nb} history batches of 2 particles (symbolic contents), symbolic iter in [0,5], calls, beta", theory="QF_LRA/LIA",
                      stubs=["dill -> by-value contract double", "open/os.fsync/os.rename -> recording file-system double"])


def val_eq_any(a, b):
    if isinstance(a, SymInt) or isinstance(b, SymInt):
        if a is None or b is None:
            return z3.BoolVal(False)
        return (SymInt.lift(a) == SymInt.lift(b)).z
    return val_eq(a, b)


# ------------------------------------------------------------------ crash safety


def crash_formula(trace, final_name, old_exists, power_loss=True):
    """z3 constraint 'some crash leaves a truncated file under the final name' over crash point k, bytes b of the
    in-flight write and surviving (durable..written) lengths. File objects are buffered in user space: of the n bytes of a write
    an unknown tail t (0 <= t <= n, a solver variable per write) stays in the process until flush()/close(); os.fsync only makes the
    bytes the OS already has durable; a crash loses the user-space tail."""
    k = z3.Int("crash_at")
    b = z3.Int("bytes_of_inflight_write")
    cases, side = [], []
    for kc in range(len(trace) + 1):
        # replay kc complete operations
        files = {}
        if old_exists:
            files[final_name] = dict(total=NBYTES, written=z3.IntVal(NBYTES), durable=z3.IntVal(NBYTES), buffered=z3.IntVal(0), id="old")
        n_obj = 0
        alias = {}

        def res(nm):
            # an open handle keeps feeding its file after the file was renamed
            seen_ = set()
            while nm in alias and nm not in files and nm not in seen_:
                seen_.add(nm)
                nm = alias[nm]
            return nm
        for i_op, op in enumerate(trace[:kc]):
            if op[0] == "open_w":
                n_obj += 1
                alias.pop(op[1], None)
                files[op[1]] = dict(total=None, written=z3.IntVal(0), durable=z3.IntVal(0), buffered=z3.IntVal(0), id=f"new{n_obj}")
            elif op[0] == "write":
                t = z3.Int(f"unflushed_tail_of_write_{i_op}")
                side.append(z3.And(t >= 0, t <= op[2]))
                f_ = files[res(op[1])]
                f_["written"] = f_["written"] + f_["buffered"] + (op[2] - t)  # earlier tail goes out first
                f_["buffered"] = t
                f_["total"] = op[2]
            elif op[0] in ("flush", "close"):
                f_ = files.get(res(op[1]))
                if f_ is not None:
                    f_["written"] = f_["written"] + f_["buffered"]
                    f_["buffered"] = z3.IntVal(0)
            elif op[0] == "fsync":
                files[res(op[1])]["durable"] = files[res(op[1])]["written"]
            elif op[0] == "rename":
                files[op[2]] = files.pop(op[1])
                alias[op[1]] = op[2]
        # a handle opened under the temporary name keeps feeding the same file after a rename: flush/close by old name
        inflight = trace[kc] if kc < len(trace) else None
        f = files.get(final_name)
        if f is None:
            continue  # absent: fine
        written, durable = f["written"], f["durable"]
        total = f["total"]
        extra = []
        if inflight is not None and inflight[0] == "write" and inflight[1] == final_name:
            written = written + b
            extra.append(z3.And(b >= 0, b <= inflight[2]))
            total = inflight[2]
        elif inflight is not None and inflight[0] == "write":
            extra.append(z3.And(b >= 0, b <= inflight[2]))
        else:
            extra.append(b == 0)
        L = z3.Int(f"surviving_len_{kc}")
        full = z3.IntVal(total if total is not None else NBYTES)
        # bytes that were fsync'ed survive; the rest may or may not
        lower = durable if power_loss else written  # a mere process crash loses nothing the OS already has
        cases.append(z3.And(k == kc, *extra, L >= lower, L <= written, L < full))
    return (z3.And(z3.Or(*cases), *side) if cases else z3.BoolVal(False)), k, b


def make_crash(old_exists):
    def harness(ctx: PathCtx):
        fs = FakeFS()
        A, it, calls = sym_filled_sampler(ctx, 1, False)
        path = Path(tempfile.gettempdir()) / "vf_c08" / "ps_final.state"
        if old_exists:
            fs.files[str(path)] = FObj(blob=Blob({"old": True}), total=NBYTES, written=NBYTES, durable=NBYTES, tag="old")
        with io_doubles(fs):
            A.save_state(path)
        trace = list(fs.trace)
        ctx.notes["trace"] = trace
        bad, k, b = crash_formula(trace, str(path), old_exists, power_loss=False)
        ctx.register("crash_at", k)
        ctx.register("bytes_of_inflight_write", b)
        ctx.check("no-process-crash-leaves-a-truncated-checkpoint", z3.Not(bad), detail=[list(map(str, t)) for t in trace])
        bad2, _, _ = crash_formula(trace, str(path), old_exists, power_loss=True)
        ctx.check("no-power-loss-leaves-a-truncated-checkpoint", z3.Not(bad2), detail=[list(map(str, t)) for t in trace])
        ends = fs.files.get(str(path))
        ctx.check("save-completes-with-the-new-content-under-the-final-name",
                  z3.BoolVal(ends is not None and isinstance(ends.blob, Blob) and "old" not in ends.blob.payload))
        return [t[0] for t in trace]

    def replay(m, label, v):
        """real files, real dill: the process 'dies' at operation k after b bytes of the in-flight write."""
        import builtins
        import dill
        if label.startswith("no-power-loss"):
            return replay_power_loss(old_exists)
        k = int(m.get("crash_at", 0))
        b = int(m.get("bytes_of_inflight_write", 0))
        d = tempfile.mkdtemp(prefix="vf_c08c_")

        class Crash(BaseException):
            pass
        try:
            A = Sampler(lambda u: u, lambda x: -np.sum(x ** 2, axis=1), n_dim=1, n_particles=8, vectorize=True, clustering=False, output_dir=d)
            A._core._initialize_fresh()
            s0 = np.random.get_state()
            np.random.seed(0)
            A.sample()
            np.random.set_state(s0)
            path = os.path.join(d, "ps_final.state")
            if old_exists:
                A.save_state(path)
                assert dill.load(open(path, "rb")) is not None
            count = {"n": 0}
            real_open = builtins.open

            def tick():
                if count["n"] == k:
                    raise Crash()
                count["n"] += 1

            class W:
                def __init__(self, f):
                    self.f = f

                def __enter__(self):
                    return self

                def __exit__(self, *a):
                    self.f.close()
                    return False

                def write(self, data):
                    if count["n"] == k:
                        frac = min(len(data), max(0, int(len(data) * b / NBYTES)))
                        self.f.write(data[:frac])
                        self.f.flush()
                        raise Crash()
                    count["n"] += 1
                    return self.f.write(data)

                def flush(self):
                    tick()
                    self.f.flush()

                def fileno(self):
                    return self.f.fileno()

                def close(self):
                    self.f.close()

            def crashing_open(p, mode="r", *a, **kw):
                if "w" in mode and str(p).startswith(d):
                    tick()
                    return W(real_open(p, mode, *a, **kw))
                return real_open(p, mode, *a, **kw)
            real_fsync, real_rename, real_replace = os.fsync, os.rename, os.replace

            def fsync(fd):
                tick()
                return real_fsync(fd)

            def rename(a_, b_):
                tick()
                return real_rename(a_, b_)
            try:
                # many small writes of the real serializer are folded into one logical write: buffer dill output
                import io
                real_dump = dill.dump

                def dump_once(obj, file, *a, **kw):
                    buf = io.BytesIO()
                    real_dump(obj, buf, *a, **kw)
                    file.write(buf.getvalue())
                dill.dump = dump_once
                os.fsync, os.rename, os.replace = fsync, rename, rename
                with patched(core_mod, open=crashing_open):
                    try:
                        A.save_state(path)
                    except Crash:
                        pass
            finally:
                dill.dump = real_dump
                os.fsync, os.rename, os.replace = real_fsync, real_rename, real_replace
            def file_status():
                if not os.path.exists(path):
                    return "absent"
                try:
                    with real_open(path, "rb") as f_:
                        dill.load(f_)
                    return "loadable"
                except Exception as e_:
                    return f"unloadable ({type(e_).__name__})"
            status = file_status()
            if not status.startswith("unloadable") and os.path.isdir("/dev/shm") and os.stat("/dev/shm").st_dev != os.stat(d).st_dev:
                # second attempt: temporary files on another file system (TMPDIR=/dev/shm), where shutil.move degrades to copy + unlink;
                # the process dies in the middle of that copy
                import shutil as _sh
                import tempfile as _tf
                real_copyfile, old_tmp = _sh.copyfile, _tf.tempdir

                def dying_copyfile(src, dst, *a, **k):
                    with real_open(src, "rb") as fi, real_open(dst, "wb") as fo:
                        data = fi.read()
                        fo.write(data[: max(1, len(data) // 2)])
                        fo.flush()
                    raise Crash()
                _sh.copyfile, _tf.tempdir = dying_copyfile, "/dev/shm"
                try:
                    try:
                        A.save_state(path)
                    except Crash:
                        pass
                finally:
                    _sh.copyfile, _tf.tempdir = real_copyfile, old_tmp
                    for fn in os.listdir("/dev/shm"):
                        if fn.startswith("ps_final.state."):
                            try:
                                os.unlink(os.path.join("/dev/shm", fn))
                            except OSError:
                                pass
                status = file_status() + " [TMPDIR on another file system, crash during shutil.move's copy]"
            return {"reproduced": status.startswith("unloadable"), "signature": "crash:truncated-file-under-final-name",
                    "payload": {"crash_before_operation": k, "bytes_fraction": b / NBYTES, "previous_checkpoint": old_exists, "status": status},
                    "what": f"process killed at I/O operation {k} of save_state (after {b}/{NBYTES} of the write), previous checkpoint present={old_exists}: "
                            f"file under the final name is {status}"}
        finally:
            import shutil
            shutil.rmtree(d, ignore_errors=True)

    return Obligation(f"crash-{'over-old' if old_exists else 'fresh'}", harness, replay=replay,
                      encodes=[core_mod.SamplerCore.save_sampler_state],
                      bounds="the recorded I/O trace of one real save; crash point and bytes of the in-flight write are solver variables",
                      stubs=["dill -> contract double", "open/os -> recording file-system double"], theory="QF_LIA")


def replay_power_loss(old_exists):
    """record the I/O trace of the *real* save (real dill, real files, pass-through wrappers) and evaluate the same
    durability model on it: a power loss cannot be produced on a real file system from here."""
    import builtins
    import dill
    import io
    import shutil
    d = tempfile.mkdtemp(prefix="vf_c08d_")
    trace = []
    try:
        A = Sampler(lambda u: u, lambda x: -np.sum(x ** 2, axis=1), n_dim=1, n_particles=8, vectorize=True, clustering=False, output_dir=d)
        A._core._initialize_fresh()
        s0 = np.random.get_state()
        np.random.seed(0)
        A.sample()
        np.random.set_state(s0)
        path = os.path.join(d, "ps_final.state")
        real_open = builtins.open
        fdn = {}

        class W:
            def __init__(self, f, name):
                self.f, self.name = f, name
                fdn[f.fileno()] = name

            def __enter__(self):
                return self

            def __exit__(self, *a):
                self.close()
                return False

            def write(self, data):
                trace.append(("write", self.name, NBYTES))
                return self.f.write(data)

            def flush(self):
                trace.append(("flush", self.name))
                self.f.flush()

            def fileno(self):
                return self.f.fileno()

            def close(self):
                trace.append(("close", self.name))
                self.f.close()

        def rec_open(p, mode="r", *a, **kw):
            if "w" in mode and str(p).startswith(d):
                trace.append(("open_w", str(p)))
                return W(real_open(p, mode, *a, **kw), str(p))
            return real_open(p, mode, *a, **kw)
        real_fsync, real_rename, real_replace, real_dump = os.fsync, os.rename, os.replace, dill.dump

        def fsync(fd):
            trace.append(("fsync", fdn.get(fd, "?")))
            return real_fsync(fd)

        def rename(a_, b_):
            trace.append(("rename", str(a_), str(b_)))
            return real_rename(a_, b_)

        def dump_once(obj, file, *a, **kw):
            buf = io.BytesIO()
            real_dump(obj, buf, *a, **kw)
            file.write(buf.getvalue())
        try:
            dill.dump = dump_once
            os.fsync, os.rename, os.replace = fsync, rename, rename
            with patched(core_mod, open=rec_open):
                A.save_state(path)
        finally:
            dill.dump = real_dump
            os.fsync, os.rename, os.replace = real_fsync, real_rename, real_replace
        bad, k, b = crash_formula(trace, path, old_exists, power_loss=True)
        s = z3.Solver()
        s.add(bad)
        r = s.check()
        wit = None
        if str(r) == "sat":
            mm = s.model()
            wit = (mm.eval(k, model_completion=True).as_long(), mm.eval(b, model_completion=True).as_long())
        return {"reproduced": str(r) == "sat", "signature": "crash:not-durable-under-final-name",
                "payload": {"real_io_trace": [list(map(str, t)) for t in trace], "witness_crash_point_and_bytes": wit},
                "what": f"I/O trace of the real save {[t[0] for t in trace]}: under the POSIX durability model a power loss at operation "
                        f"{wit[0] if wit else '?'} leaves a truncated file under the final name (no fsync before the data is visible there)"}
    finally:
        shutil.rmtree(d, ignore_errors=True)


# ------------------------------------------------------------------ configurations


def make_configs():
    def harness(ctx: PathCtx):
        fs = FakeFS()
        kind = integer(ctx, "pool_kind", lo=0, hi=2).resolve(0, 2)  # 0 None, 1 int, 2 pool object
        if kind == 0:
            pool = None
        elif kind == 1:
            from vf.props.c13 import SymPoolSize
            pool = SymPoolSize(integer(ctx, "pool_size", lo=1, hi=4))
        else:
            pool = types.SimpleNamespace(map=map, _is_pool_double=True)  # user-supplied pool objects refuse pickling (multiprocessing contract)
        blobs = bool(boolean(ctx, "blobs"))
        A, it, calls = sym_filled_sampler(ctx, 1, blobs, pool=pool)
        path = Path(tempfile.gettempdir()) / "vf_c08" / "ps_cfg.state"
        used = bool(boolean(ctx, "likelihood_used_before_save"))
        if used and kind == 1:
            # a likelihood batch through the integer pool (the process pool is a double); checkpoints are written mid-run
            from vf.props.c13 import fake_multiprocess
            saved_mp = sys.modules.get("multiprocess")
            sys.modules["multiprocess"] = fake_multiprocess(ctx, [])
            try:
                A._core._log_like(np.zeros((2, 1)))
            except AttributeError:
                pass
            finally:
                if saved_mp is not None:
                    sys.modules["multiprocess"] = saved_mp
                else:
                    sys.modules.pop("multiprocess", None)
        try:
            with io_doubles(fs):
                A.save_state(path)
        except Exception as e:
            ctx.fail("save-works-in-every-configuration", f"{type(e).__name__}: {e}")
            return None
        ctx.ok("save-works-in-every-configuration")
        ctx.check("pool-still-attached-after-save", z3.BoolVal(A._core.config.pool is pool))
        return None

    def replay(m, label, v):
        kind = int(m.get("pool_kind", 0))
        d = tempfile.mkdtemp(prefix="vf_c08p_")
        try:
            tp = None
            if kind == 2:
                from multiprocessing.pool import ThreadPool
                tp = ThreadPool(1)  # a real pool object: refuses pickling exactly like a process pool, no worker processes
            pool = None if kind == 0 else (int(m.get("pool_size", 1)) if kind == 1 else tp)
            A = Sampler(lambda u: u, _ll, n_dim=1, n_particles=4, clustering=False, pool=pool, output_dir=d,
                        blobs_dtype=None)
            err = None
            try:
                if bool(m.get("likelihood_used_before_save", False)) and kind == 1:
                    A._core._log_like(np.zeros((2, 1)))  # real worker processes
                A.save_state(os.path.join(d, "x.state"))
            except Exception as e:
                err = e
            if tp is not None:
                tp.terminate()
            for p_ in [getattr(A._core, n_) for n_ in dir(A._core) if "pool" in n_.lower() and n_ != "config"]:
                try:
                    p_.terminate()
                except Exception:
                    pass
            return {"reproduced": err is not None, "signature": f"save:pool-kind-{kind}" + (":after-likelihood-call" if m.get("likelihood_used_before_save") else ""),
                    "payload": {"pool": repr(pool), "likelihood_used_before_save": bool(m.get("likelihood_used_before_save", False))},
                    "what": f"Sampler(pool={pool!r}).save_state(...)" + (" after one likelihood batch" if m.get("likelihood_used_before_save") else "")
                            + f" raised {type(err).__name__}: {err}"}
        finally:
            import shutil
            shutil.rmtree(d, ignore_errors=True)

    return Obligation("save-configurations", harness, replay=replay, encodes=[core_mod.SamplerCore.save_sampler_state],
                      bounds="pool in {None, symbolic int in [1,4], pool object} x blobs on/off", theory="QF_LIA")


def make_resave_after_replacement():
    """one sampler object: checkpoint, get a different history loaded (rewind / resume from another file), checkpoint again:
    the second file must hold the state that exists when it is written (no export cache survives the replacement)."""

    def harness(ctx: PathCtx):
        fs = FakeFS()
        A, it, calls = sym_filled_sampler(ctx, 2, False, tag="p")
        Bsrc, it2, calls2 = sym_filled_sampler(ctx, 2, False, tag="q")
        base = Path(tempfile.gettempdir()) / "vf_c08"
        with io_doubles(fs):
            A.save_state(base / "ps_a.state")
            Bsrc.save_state(base / "ps_b.state")
            rs = np.random.get_state()
            try:
                A.load_state(base / "ps_b.state")
            finally:
                np.random.set_state(rs)
            snap = snapshot(A.state)
            A.save_state(base / "ps_c.state")
            C = Sampler(_pt, _ll, n_dim=1, n_particles=2, clustering=False, random_state=7)
            rs = np.random.get_state()
            try:
                C.load_state(base / "ps_c.state")
            finally:
                np.random.set_state(rs)
        hc = []
        for k in HISTORY_STATE_KEYS:
            hc.append(z3.BoolVal(len(snap["hist"][k]) == len(C.state._history[k])))
            hc += [val_eq_any(a, b) for a, b in zip(snap["hist"][k], C.state._history[k])]
        ctx.check("second-checkpoint-holds-the-history-that-existed-when-it-was-written", z3.And(*hc))
        ctx.check("second-checkpoint-holds-the-current-state", z3.And(*[val_eq_any(snap["cur"][k], C.state._current[k]) for k in CURRENT_STATE_KEYS]))
        return None

    def replay(m, label, v):
        import dill
        d = tempfile.mkdtemp(prefix="vf_c08s_")
        try:
            mk = lambda seed: Sampler(lambda u: u, lambda x: -0.5 * np.sum(((x - 0.5) / 0.2) ** 2, axis=1), n_dim=1, n_particles=8, vectorize=True,
                                      clustering=False, random_state=seed, output_dir=d)
            s0 = np.random.get_state()
            A, B = mk(1), mk(2)
            for smp, n in ((A, 4), (B, 2)):
                smp._core._initialize_fresh()
                for _ in range(n):
                    smp.sample()
            A.save_state(os.path.join(d, "a.state"))
            B.save_state(os.path.join(d, "b.state"))
            A.load_state(os.path.join(d, "b.state"))
            A.save_state(os.path.join(d, "c.state"))
            C = mk(3)
            C.load_state(os.path.join(d, "c.state"))
            np.random.set_state(s0)
            la, lc = B.state.get_history_length(), C.state.get_history_length()
            same = la == lc and all(np.array_equal(B.state.get_history("logl", index=i), C.state.get_history("logl", index=i)) for i in range(min(la, lc)))
            return {"reproduced": not same, "signature": "restore:stale-history-after-replacement", "payload": {"expected_batches": la, "restored_batches": lc},
                    "what": f"save, load a 2-iteration checkpoint into the same sampler, save again: the new checkpoint restores {lc} history batches, {la} existed when it was written"}
        finally:
            import shutil
            shutil.rmtree(d, ignore_errors=True)

    return Obligation("resave-after-replacement", harness, replay=replay,
                      encodes=[core_mod.SamplerCore.save_sampler_state, core_mod.SamplerCore.load_sampler_state, sm_mod.StateManager.to_dict, sm_mod.StateManager.update_from_dict],
                      bounds="two symbolic 2-batch states; save / load the other / save / load into a fresh sampler", theory="QF_LRA/LIA",
                      stubs=["dill / file-system doubles"])


def make_resume_target():
    """run(n_total=N2, resume_state_path=...) must pursue the target of *this* call (same postconditions as an uninterrupted run)."""

    def harness(ctx: PathCtx):
        fs = FakeFS()
        A, it, calls = sym_filled_sampler(ctx, 1, False)
        n1 = integer(ctx, "n_total_of_the_checkpointed_run", lo=1, hi=4)
        n2 = integer(ctx, "n_total_requested_on_resume", lo=1, hi=4)
        A._core.n_total = n1
        path = Path(tempfile.gettempdir()) / "vf_c08" / "ps_4.state"
        with io_doubles(fs):
            A.save_state(path)
            B = Sampler(_pt, _ll, n_dim=1, n_particles=2, clustering=False, random_state=7)
            B._core._not_termination = lambda: False  # loop head reached: stop there
            import tempest.tools as tools_mod

            class PB:
                def __init__(self, *a, **k):
                    self.info = {}

                def update_stats(self, info):
                    pass

                def update_iter(self):
                    pass

                def close(self):
                    pass
            B.state.compute_logw_and_logz = lambda *a, **k: (np.zeros(1), 0.0)  # the evidence tail is C12's subject
            rs = np.random.get_state()
            try:
                with patched(tools_mod, ProgressBar=PB):
                    B._core.run_sampling(n_total=n2, progress=False, resume_state_path=path)
            finally:
                np.random.set_state(rs)
        got = B._core.n_total
        ctx.check("resumed-run-pursues-the-requested-n_total", (SymInt.lift(got) == n2).z if not isinstance(got, SymInt) else (got == n2).z,
                  detail=str(got))
        return None

    def replay(m, label, v):
        n1 = int(m["n_total_of_the_checkpointed_run"])
        n2 = int(m["n_total_requested_on_resume"])
        d = tempfile.mkdtemp(prefix="vf_c08r_")
        try:
            s0 = np.random.get_state()
            np.random.seed(3)
            A = Sampler(lambda u: u, lambda x: -0.5 * np.sum(((x - 0.5) / 0.2) ** 2, axis=1), n_dim=1, n_particles=8, vectorize=True,
                        clustering=False, output_dir=d)
            A._core._initialize_fresh()
            A.sample()
            A._core.n_total = n1
            path = os.path.join(d, "ck.state")
            A.save_state(path)
            B = Sampler(lambda u: u, lambda x: -0.5 * np.sum(((x - 0.5) / 0.2) ** 2, axis=1), n_dim=1, n_particles=8, vectorize=True,
                        clustering=False, output_dir=d)
            B._core._not_termination = lambda: False
            B.run(n_total=n2, progress=False, resume_state_path=path)
            np.random.set_state(s0)
            got = B._core.n_total
            return {"reproduced": got != n2, "signature": "resume:n_total-of-the-call-ignored", "payload": {"checkpoint_n_total": n1, "requested": n2, "used": got},
                    "what": f"run(n_total={n2}, resume_state_path=<checkpoint of a run with n_total={n1}>) uses n_total={got} in its termination test"}
        finally:
            import shutil
            shutil.rmtree(d, ignore_errors=True)

    return Obligation("resume-target", harness, replay=replay, encodes=[core_mod.SamplerCore.run_sampling, core_mod.SamplerCore.load_sampler_state],
                      bounds="symbolic n_total in [1,4] of the checkpointed run and of the resuming call (int() resolves it by forking); loop skipped at its head", theory="QF_LIA",
                      stubs=["dill / file system doubles", "_not_termination -> False (stop at the loop head)", "ProgressBar -> no-op"])


def obligations(tier):
    obs = [make_restore(2, False), make_restore(1, True), make_crash(False), make_crash(True), make_configs(), make_resume_target(),
           make_resave_after_replacement()]
    # the first iteration after a resume, clustering configurations: new step objects on a restored annealing history (C14's pipeline harness)
    from vf.props.c14 import make_pipeline
    obs.append(make_pipeline(2, 3, 1, 2, resumed=True))
    if tier == "thorough":
        obs += [make_restore(3, True), make_restore(3, False)]
    return obs
