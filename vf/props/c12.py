"""C12 - run() postconditions and the posterior()/evidence() contract."""
from __future__ import annotations

import itertools
import math
from fractions import Fraction

import numpy as np
import z3

import tempest.core as core_mod
import tempest.state_manager as sm_mod
import tempest.tools as tools
from tempest.sampler import Sampler
from tempest.state_manager import StateManager

from vf.engine.core import PathCtx
from vf.engine.harness import Obligation
from vf.engine.real import LogVal, SymReal
from vf.engine.arr import NpProxy, RandomStub, patched, sarr
from vf.engine.util import real, eq, le, lt, scalar
from vf.props.c04 import spec_weights
from vf.props.mcmc_common import Draws

PROPERTY_ID = "C12"
ASSUMPTIONS = [
    "exact reals / log-domain algebra (see C04); history sizes and beta grid as stated per obligation",
    "np.random.random -> arbitrary value in [0,1)",
    "that the run loop terminates at all is outside the claim (only its exit condition and the code after it are encoded)",
]


def _pt(u):
    return u


def _ll(x):
    return 0.0


def make_sampler(blobs: bool):
    return Sampler(_pt, _ll, n_dim=1, n_particles=2, blobs_dtype="float64" if blobs else None, clustering=False)


def fill_history(ctx, st: StateManager, batches, betas, D, blobs: bool, tag="", unit_Z=False):
    rows = []
    pb = []
    k = 0
    for t, nt in enumerate(batches):
        ls = [LogVal.atom(f"{tag}l{k + j}", D) for j in range(nt)]
        xs = [[real(ctx, f"{tag}x{k + j}")] for j in range(nt)]
        us = [[real(ctx, f"{tag}u{k + j}", lo=0, hi=1)] for j in range(nt)]
        bs = [real(ctx, f"{tag}b{k + j}") for j in range(nt)]
        zt = real(ctx, f"{tag}Z{t}", lo=0, lo_strict=True) if not unit_Z else SymReal.const(1)
        cur = {"u": sarr(us), "x": sarr(xs), "logl": sarr(ls), "beta": float(betas[t]), "logz": LogVal.of_positive(zt)}
        if blobs:
            cur["blobs"] = sarr(bs)
        st.update_current(cur)
        st.commit_current_to_history()
        for j in range(nt):
            rows.append({"x": xs[j][0], "l": ls[j], "b": bs[j], "u": us[j][0]})
        pb.append((ls, zt, betas[t]))
        k += nt
    return rows, pb


def make_posterior(flags, batches, bins, betas=None, ess_trim="9/10"):
    resample, trim, return_blobs, return_logw = flags
    unit_Z = betas is None
    betas = betas or tuple([Fraction(0)] * len(batches))  # prior-phase history: MIS weights are the likelihoods themselves
    D = 1
    N = sum(batches)
    name = "posterior-" + "".join("RTBW"[i] if f else "-" for i, f in enumerate(flags)) + f"-hist{'x'.join(map(str, batches))}"

    def harness(ctx: PathCtx):
        smp = make_sampler(blobs=True)
        rows, pb = fill_history(ctx, smp.state, batches, betas, D, blobs=True, unit_Z=unit_Z)
        stub = RandomStub(Draws(ctx), max_calls=1)
        with patched(sm_mod, np=NpProxy(exact_log=True)), patched(core_mod, np=NpProxy(exact_log=True, random=stub)), \
                patched(tools, np=NpProxy(random=stub)):
            out = smp.posterior(resample=resample, return_blobs=return_blobs, trim_importance_weights=trim,
                                return_logw=return_logw, ess_trim=float(Fraction(ess_trim)), bins_trim=bins)
        expect_len = 3 + (1 if return_blobs else 0) + (1 if return_logw else 0)
        ctx.check("tuple-arity", z3.BoolVal(len(out) == expect_len))
        if len(out) != expect_len:
            return None
        x, w, logl = out[0], out[1], out[2]
        blobs = out[3] if return_blobs else None
        logw = out[-1] if return_logw else None
        n = len(w)
        lens = [len(x), len(w), len(logl)] + ([len(blobs)] if blobs is not None else []) + ([len(logw)] if logw is not None else [])
        ctx.check("equal-lengths", z3.BoolVal(len(set(lens)) == 1), detail=lens)
        ctx.check("weights-nonneg", z3.And(*[le(0, w[i]) for i in range(n)]))
        tot = w[0]
        for v in w[1:]:
            tot = tot + v
        if resample:
            ctx.check("weights-sum-to-one", z3.And(le(tot, 1 + 1e-12), le(1 - 1e-12, tot)))  # concrete doubles 1/n
        else:
            ctx.check("weights-sum-to-one", eq(tot, 1))
        if resample:
            # the code builds np.ones(n)/n in floating point: compare with the same double
            ctx.check("uniform-when-resampled", z3.And(*[eq(w[i], 1.0 / n) for i in range(n)]))
        # row-wise agreement: identify the history record by the identity of the x symbol
        ks = []
        for i in range(len(x)):
            xi = scalar(x[i])
            k = [j for j, r in enumerate(rows) if r["x"] is xi]
            ks.append(k[0] if len(k) == 1 else None)
        ctx.check("samples-are-history-records", z3.BoolVal(all(k is not None for k in ks)))
        if all(k is not None for k in ks) and len(set(lens)) == 1:
            ok = all(logl[i] is rows[k]["l"] for i, k in enumerate(ks))
            ctx.check("logl-rows-match-samples", z3.BoolVal(bool(ok)))
            if blobs is not None:
                ctx.check("blob-rows-match-samples", z3.BoolVal(all(scalar(blobs[i]) is rows[k]["b"] for i, k in enumerate(ks))))
            spec = spec_weights(pb, Fraction(1), D)
            if logw is not None:
                sp_tot = spec[0]
                for v in spec[1:]:
                    sp_tot = sp_tot + v
                ctx.check("logw-rows-match-samples", z3.And(*[eq(logw[i].exp(), spec[k] / sp_tot) for i, k in enumerate(ks)]))
            if not resample:
                kept = spec[ks[0]]
                for k in ks[1:]:
                    kept = kept + spec[k]
                ctx.check("weights-proportional-to-spec", z3.And(*[eq(w[i], spec[k] / kept) for i, k in enumerate(ks)]))
                ctx.check("no-duplicates-without-resampling", z3.BoolVal(len(set(ks)) == len(ks)))
        return lens

    def concrete(m, seed_u0=None):
        smp = make_sampler(blobs=True)
        st = smp.state
        k = 0
        for t, nt in enumerate(batches):
            ll = np.array([D * math.log(float(m[f"expatom_l{k + j}"])) for j in range(nt)])
            xs = np.array([[100.0 + k + j] for j in range(nt)])
            st.update_current({"u": np.full((nt, 1), 0.5), "x": xs, "logl": ll, "beta": float(betas[t]),
                               "logz": math.log(float(m.get(f"Z{t}", 1.0))), "blobs": 7.0 * xs[:, 0]})
            st.commit_current_to_history()
            k += nt
        from vf.engine.util import scripted_random
        u0 = float(m.get("u0_0", 0.5))
        with scripted_random(random=lambda *a, **kw: u0):
            out = smp.posterior(resample=resample, return_blobs=return_blobs, trim_importance_weights=trim,
                                return_logw=return_logw, ess_trim=float(Fraction(ess_trim)), bins_trim=bins)
        return smp, out

    def replay(m, label, v):
        smp, out = concrete(m)
        lens = [len(o) for o in out]
        x, w, logl = out[0], out[1], out[2]
        allx = smp.state.get_history("x", flat=True)[:, 0]
        alll = smp.state.get_history("logl", flat=True)
        from vf.props.c04 import mis_reference
        logw_all, _ = mis_reference(smp.state, 1.0)  # independent of the function under test
        logw_all = logw_all - (logw_all.max() + math.log(np.exp(logw_all - logw_all.max()).sum()))  # normalised, as posterior() reports them
        bad, why = False, ""
        if len(set(lens)) != 1:
            bad, why = True, f"output lengths differ: {lens}"
        else:
            ks = [int(np.where(allx == xi[0])[0][0]) for xi in x]
            if not np.allclose(logl, alll[ks]):
                bad, why = True, "logl rows do not match the sample rows"
            if return_blobs and not np.allclose(out[3], 7.0 * allx[ks]):
                bad, why = True, "blob rows do not match the sample rows"
            if return_logw and not np.allclose(out[-1], logw_all[ks]):
                bad, why = True, "logw rows do not match the sample rows"
            if abs(w.sum() - 1) > 1e-9 or np.any(w < 0):
                bad, why = True, "weights are not a probability vector"
            if resample and not np.allclose(w, 1.0 / len(w)):
                bad, why = True, "weights not uniform after resampling"
            if not resample and not np.allclose(w, np.exp(logw_all[ks]) / np.exp(logw_all[ks]).sum(), rtol=1e-7):
                bad, why = True, "weights not proportional to the MIS weights of their rows"
        return {"reproduced": bad, "signature": f"posterior:{'logw-misaligned' if 'logw' in why or 'lengths' in why else label}",
                "payload": {"flags": dict(resample=resample, trim=trim, return_blobs=return_blobs, return_logw=return_logw),
                            "lengths": lens},
                "what": f"Sampler.posterior(resample={resample}, trim_importance_weights={trim}, return_blobs={return_blobs}, "
                        f"return_logw={return_logw}) on a {batches} history: {why}"}

    def validate(wit, ret):
        for k_, v_ in wit.items():
            if (k_.startswith("expatom") or k_.startswith("Z")) and not (1e-12 < float(v_) < 1e12):
                return None, ""
        if ret is None:
            return None, ""
        smp, out = concrete(wit)
        lens = [len(o) for o in out]
        if lens == list(ret):
            return True, ""
        return None, f"float run lengths {lens} vs symbolic path {ret} (model on a trimming boundary)"

    return Obligation(name, harness, replay=replay, validate=validate,
                      encodes=[core_mod.SamplerCore.compute_posterior, StateManager.compute_logw_and_logz, tools.trim_weights,
                               tools.systematic_resample, Sampler.posterior],
                      bounds=f"history batches {batches} with betas {list(map(str, betas))}, d=1, bins_trim={bins}, ess_trim={ess_trim}, "
                             f"flags resample={resample} trim={trim} return_blobs={return_blobs} return_logw={return_logw}",
                      stubs=["np.random.random -> symbolic u0", "np.log/np.logaddexp/np.exp -> exact log-domain algebra"],
                      theory="QF_NRA", timeout_ms=30000, max_paths=4000)


def make_posterior_after_replacement(batches=(2, 1)):
    """posterior(); replace the stored history by a different one of the same shape (load_state / resume path); posterior()
    again: every returned row must come from the NEW history (no memoised weights or flattened arrays survive)."""
    D = 1
    betas = tuple([Fraction(0)] * len(batches))

    def harness(ctx: PathCtx):
        smp = make_sampler(blobs=True)
        fill_history(ctx, smp.state, batches, betas, D, blobs=True, unit_Z=True)
        stub = RandomStub(Draws(ctx), max_calls=2)
        with patched(sm_mod, np=NpProxy(exact_log=True)), patched(core_mod, np=NpProxy(exact_log=True, random=stub)), patched(tools, np=NpProxy(random=stub)):
            smp.posterior(trim_importance_weights=False, return_blobs=True, return_logw=True)
            smp.state.get_history("logl", flat=True)
            other = make_sampler(blobs=True)
            rows2, pb2 = fill_history(ctx, other.state, batches, betas, D, blobs=True, tag="n", unit_Z=True)
            smp.state.update_from_dict(other.state.to_dict())
            x, w, logl, blobs, logw = smp.posterior(trim_importance_weights=False, return_blobs=True, return_logw=True)
        spec = spec_weights(pb2, Fraction(1), D)
        tot = spec[0]
        for s_ in spec[1:]:
            tot = tot + s_
        n = len(rows2)
        ok_len = len(x) == n and len(w) == n and len(logl) == n and len(blobs) == n and len(logw) == n
        ctx.check("lengths", z3.BoolVal(bool(ok_len)))
        if ok_len:
            ctx.check("samples-logl-blobs-come-from-the-new-history", z3.And(*[z3.And(eq(scalar(x[i]), rows2[i]["x"]), eq(logl[i].exp(), rows2[i]["l"].exp()),
                                                                                    eq(scalar(blobs[i]), rows2[i]["b"])) for i in range(n)]))
            ctx.check("weights-come-from-the-new-history", z3.And(*[eq(w[i], spec[i] / tot) for i in range(n)]))
            ctx.check("logw-comes-from-the-new-history", z3.And(*[eq(logw[i].exp(), spec[i] / tot) for i in range(n)]))
        return None

    def replay(m, label, v):
        rng = np.random.RandomState(1)
        smps = []
        for off in (0.0, 3.0):
            s_ = make_sampler(blobs=True)
            for t, nt in enumerate(batches):
                xs = rng.rand(nt, 1) + off
                s_.state.update_current({"u": np.full((nt, 1), 0.5), "x": xs, "logl": -xs[:, 0] * (1 + off), "beta": 0.0, "logz": 0.0, "blobs": 7 * xs[:, 0]})
                s_.state.commit_current_to_history()
            smps.append(s_)
        a, b = smps
        a.posterior(trim_importance_weights=False, return_blobs=True, return_logw=True)
        a.state.update_from_dict(b.state.to_dict())
        ra = a.posterior(trim_importance_weights=False, return_blobs=True, return_logw=True)
        rb = b.posterior(trim_importance_weights=False, return_blobs=True, return_logw=True)
        bad = not all(np.allclose(p, q) for p, q in zip(ra, rb))
        return {"reproduced": bool(bad), "signature": "posterior:stale-after-history-replacement", "payload": {"got_weights": np.asarray(ra[1]).tolist(), "expected": np.asarray(rb[1]).tolist()},
                "what": "posterior() after the history was replaced (update_from_dict / load_state) mixes rows of the old and the new history"}

    return Obligation(f"posterior-after-replacement-hist{'x'.join(map(str, batches))}", harness, replay=replay,
                      encodes=[core_mod.SamplerCore.compute_posterior, StateManager.update_from_dict, StateManager.get_history],
                      bounds=f"two symbolic histories of shape {batches}; posterior / replace / posterior on one sampler object",
                      stubs=["np.log/np.logaddexp/np.exp -> exact log-domain algebra"], theory="QF_NRA")


# ------------------------------------------------------------------ termination test


def make_termination(batches, betas, D=1):
    def harness(ctx: PathCtx):
        smp = make_sampler(blobs=False)
        rows, pb = fill_history(ctx, smp.state, batches, betas, D, blobs=False)
        beta = real(ctx, "beta_cur", lo=0, hi=1)
        ntot = real(ctx, "n_total", lo=0)
        smp.state._current["beta"] = beta
        smp._core.n_total = ntot
        from vf.props.c05 import max_model
        with patched(sm_mod, np=NpProxy(exact_log=True)), patched(core_mod, np=NpProxy(exact_log=True, overrides={"max": max_model})):
            cont = bool(smp._core._not_termination())
        spec = spec_weights(pb, Fraction(1), D)
        s = spec[0]
        q = spec[0] * spec[0]
        for v in spec[1:]:
            s = s + v
            q = q + v * v
        ess = (s * s) / q
        done = z3.And(lt(1 - beta, Fraction(1e-4)), le(ntot, ess))
        ctx.check("loop-exits-iff-beta-within-1e-4-and-ESS>=n_total", done == z3.BoolVal(not cont))
        return cont

    def replay(m, label, v):
        smp = make_sampler(blobs=False)
        st = smp.state
        k = 0
        for t, nt in enumerate(batches):
            ll = np.array([D * math.log(float(m[f"expatom_l{k + j}"])) for j in range(nt)])
            st.update_current({"u": np.full((nt, 1), 0.5), "x": np.zeros((nt, 1)), "logl": ll, "beta": float(betas[t]),
                               "logz": math.log(float(m[f"Z{t}"]))})
            st.commit_current_to_history()
            k += nt
        b = float(m["beta_cur"])
        nt_ = float(m["n_total"])
        st.set_current("beta", b)
        smp._core.n_total = nt_
        cont = bool(smp._core._not_termination())
        from vf.props.c04 import mis_reference
        logw, _ = mis_reference(st, 1.0)  # independent of the function under test
        w = np.exp(logw - logw.max())
        ess = w.sum() ** 2 / (w ** 2).sum()
        done = (1 - b < 1e-4) and (ess >= nt_)
        return {"reproduced": done == cont, "signature": "termination-test",
                "payload": {"beta": b, "n_total": nt_, "ess": ess, "continues": cont},
                "what": f"_not_termination() = {cont} with beta={b}, ESS={ess}, n_total={nt_}"}

    return Obligation(f"termination-hist{'x'.join(map(str, batches))}", harness, replay=replay,
                      encodes=[core_mod.SamplerCore._not_termination, tools.effective_sample_size],
                      bounds=f"history {batches}, betas {list(map(str, betas))}, symbolic current beta in [0,1] and n_total >= 0",
                      stubs=["np.max -> fresh m (no fork)"], theory="QF_NRA")


# ------------------------------------------------------------------ evidence after the loop


def make_evidence(batches, betas, D=1, resumed=False):
    def harness(ctx: PathCtx):
        smp = make_sampler(blobs=False)
        core = smp._core
        rows, pb = fill_history(ctx, smp.state, batches, betas, D, blobs=False)
        stale = real(ctx, "stale_logz_exp", lo=0, lo_strict=True)

        def fresh():
            # a run may legally stop with 1 - beta < 1e-4: the reported evidence must still be the one at beta = 1
            smp.state._current.update({"iter": 5, "calls": 50, "beta": 0.99995, "logz": LogVal.of_positive(stale)})
        core._initialize_fresh = fresh
        core._initialize_from_resume = lambda path: fresh()  # resumed=True: the same terminal pre-state arrives from a checkpoint
        core._not_termination = lambda: False
        asked = []
        real_compute = smp.state.compute_logw_and_logz

        def recording(beta_final=1.0, normalize=True):
            asked.append(beta_final)
            return real_compute(1.0 if beta_final != 1.0 else beta_final, normalize)
        smp.state.compute_logw_and_logz = recording
        with patched(sm_mod, np=NpProxy(exact_log=True)):
            smp.run(n_total=1, progress=False, **({"resume_state_path": "vf_resumed.state"} if resumed else {}))
            ev = smp.evidence()
        ctx.check("final-evidence-is-evaluated-at-beta=1", z3.BoolVal(bool(asked) and all(float(b) == 1.0 for b in asked)), detail=[str(b) for b in asked])
        spec = spec_weights(pb, Fraction(1), D)
        s = spec[0]
        for v in spec[1:]:
            s = s + v
        ctx.check("evidence()==MIS-evidence-at-beta=1", eq(ev[0].exp(), s / len(spec)))
        ctx.check("history-untouched-by-the-tail", z3.BoolVal(smp.state.get_history_length() == len(batches)))
        return None

    def replay(m, label, v):
        smp = make_sampler(blobs=False)
        st = smp.state
        k = 0
        for t, nt in enumerate(batches):
            # log-likelihoods of realistic magnitude (-2e4 + model values): a temperature error of 5e-5 then shows in the evidence
            ll = np.array([D * math.log(float(m[f"expatom_l{k + j}"])) - 2e4 - 3.0 * (k + j) for j in range(nt)])
            st.update_current({"u": np.full((nt, 1), 0.5), "x": np.zeros((nt, 1)), "logl": ll, "beta": float(betas[t]),
                               "logz": math.log(float(m[f"Z{t}"])) - 2e4 * float(betas[t])})
            st.commit_current_to_history()
            k += nt
        core = smp._core
        stale = math.log(float(m["stale_logz_exp"]))
        core._initialize_fresh = lambda: st._current.update({"iter": 5, "calls": 50, "beta": 0.99995, "logz": stale})
        core._initialize_from_resume = lambda path: core._initialize_fresh()
        core._not_termination = lambda: False
        smp.run(n_total=1, progress=False, **({"resume_state_path": "vf_resumed.state"} if resumed else {}))
        ev = smp.evidence()[0]
        from vf.props.c04 import mis_reference
        _, ref = mis_reference(st, 1.0)  # independent of the function under test
        return {"reproduced": not math.isclose(ev, ref, rel_tol=1e-12, abs_tol=1e-9), "signature": "evidence-after-run",
                "payload": {"evidence": ev, "recomputed": ref, "beta_at_termination": 0.99995},
                "what": f"run({'resume_state_path=...' if resumed else ''}) ending at beta=0.99995 without a further iteration: evidence() = {ev} but MIS evidence at beta=1 from the history = {ref}"}

    return Obligation(f"evidence-{'resumed-' if resumed else ''}hist{'x'.join(map(str, batches))}", harness, replay=replay,
                      encodes=[core_mod.SamplerCore.run_sampling, core_mod.SamplerCore.compute_evidence, Sampler.evidence],
                      bounds=f"history {batches}, betas {list(map(str, betas))}; the loop is skipped (pre-state terminal), only the code after it runs",
                      stubs=["_not_termination -> False, _initialize_fresh -> terminal symbolic state (harness-constructed pre-state)"],
                      theory="QF_NRA")


H = Fraction(1, 2)


def obligations(tier):
    obs = []
    combos = list(itertools.product((False, True), repeat=4))
    for flags in combos:
        obs.append(make_posterior(flags, (2, 1), 3))
    from vf.props.c08 import make_resume_target
    obs.append(make_resume_target())  # ESS >= n_total of *this* call also when the run is resumed
    obs.append(make_termination((2, 1), (Fraction(0), Fraction(1))))
    obs.append(make_evidence((2, 1), (Fraction(0), Fraction(1))))
    obs.append(make_evidence((2, 1), (Fraction(0), Fraction(1)), resumed=True))  # a resumed run that needs no further iteration
    obs.append(make_posterior_after_replacement((2, 1)))
    if tier == "thorough":
        for flags in combos:
            # (trim + resample on 4 rows exhausts the budget: 3 rows in 1+2 batches there)
            obs.append(make_posterior(flags, (1, 2) if (flags[0] and flags[1]) else (2, 2), 4, ess_trim="3/4"))
        obs.append(make_posterior((True, True, True, True), (1, 1, 2), 3))
        obs.append(make_termination((1, 2, 1), (Fraction(0), Fraction(1), Fraction(1))))
        obs.append(make_evidence((1, 2, 1), (Fraction(0), Fraction(1), Fraction(1))))
    return obs
