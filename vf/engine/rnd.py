"""Round-off model of IEEE-754 binary64 arithmetic over the reals (the 'standard model' of floating-point error analysis,
with gradual underflow and sign preservation), decided by the real-arithmetic solver.

A `SymRnd` carries the *value of a double* as a SymReal. Every arithmetic operation returns a fresh real r constrained by

    |r - e| <= u*|e| + eta      u = 2^-53, eta = 2^-1075 for * and / (0 for + and -, whose results are exact when subnormal)
    sign(r) in {sign(e), 0},    e == 0  =>  r == 0

where e is the exact result on the operand values. Every binary64 round-to-nearest result satisfies these constraints as long as
it does not overflow, so a property proved for all r holds for the real arithmetic; the converse is false (the model admits
results no rounding produces), so a counterexample is only a *candidate* and must reproduce on real doubles before it is reported.
Operations on two concrete operands are performed in real binary64. Overflow (|e| >= 2^1023) and division by zero end the path
with `FloatNonFinite` (numpy would continue with inf/nan): the obligations that use this model demand finite results."""
from __future__ import annotations

import math
from fractions import Fraction

import numpy as np
import z3

from .core import HarnessError, SymBool, cur
from .real import SymReal, SymInt, _rv, _frac, _is_number

U = Fraction(1, 2 ** 53)
ETA = Fraction(1, 2 ** 1075)
BIG = Fraction(2 ** 1023)

CONFIG = {"overflow_check": True}
STATS = {"rounded_ops": 0, "exact_ops": 0}


class FloatNonFinite(Exception):
    """the modelled computation produced inf or nan (overflow or a division by zero)."""


def _abs_term(t):
    return z3.If(t >= 0, t, -t)


def _iv_mul(a, b):
    ps = [a[0] * b[0], a[0] * b[1], a[1] * b[0], a[1] * b[1]]
    return (min(ps), max(ps))


def _iv_widen(iv, underflow):
    m = max(abs(iv[0]), abs(iv[1]))
    sl = U * m + (ETA if underflow else 0)
    lo, hi = iv[0] - sl, iv[1] + sl
    if iv[0] >= 0:
        lo = max(lo, Fraction(0))  # sign preservation
    if iv[1] <= 0:
        hi = min(hi, Fraction(0))
    return (lo, hi)


class SymRnd:
    """iv: optional rational interval enclosing the value (interval arithmetic, used only as a sound pre-filter that saves the
    solver the overflow / zero-divisor questions whose answer is obvious from magnitudes)."""

    # immutable value object: copying (copy.copy / copy.deepcopy, e.g. a deep copy of an object array) yields the same scalar
    def __copy__(self):
        return self

    def __deepcopy__(self, memo):
        return self

    __slots__ = ("v", "iv")
    __array_priority__ = 0

    def __init__(self, v, iv=None):
        self.v = SymReal.lift(v)
        c = self.v.concrete()
        self.iv = (c, c) if c is not None else iv

    # ------------------------------------------------------------------ construction
    @staticmethod
    def lift(x) -> "SymRnd":
        if isinstance(x, SymRnd):
            return x
        if isinstance(x, np.ndarray) and x.ndim == 0:
            return SymRnd.lift(x.item())
        if isinstance(x, (SymReal, SymInt)):
            return SymRnd(SymReal.lift(x))
        if _is_number(x):
            xf = float(x) if not isinstance(x, Fraction) else x
            if isinstance(xf, float) and (math.isinf(xf) or math.isnan(xf)):
                raise FloatNonFinite(f"non-finite constant {xf}")
            return SymRnd(SymReal.const(Fraction(xf)))
        raise HarnessError(f"cannot lift {type(x).__name__} into the round-off model")

    def concrete(self):
        return self.v.concrete()

    def __repr__(self):
        return f"SymRnd({self.v!r})"

    # ------------------------------------------------------------------ the rounding step
    @staticmethod
    def _round(e: SymReal, underflow: bool, cf=None, iv=None) -> "SymRnd":
        """e: exact result; cf: float result when both operands were concrete doubles; iv: interval of the exact result."""
        if cf is not None:
            if math.isinf(cf) or math.isnan(cf):
                raise FloatNonFinite("overflow / invalid operation on concrete doubles")
            STATS["exact_ops"] += 1
            return SymRnd(SymReal.const(Fraction(cf)))
        ec = e.concrete()
        if ec is not None and ec == 0:
            return SymRnd(SymReal.const(0))
        c = cur()
        t = e.term()
        if CONFIG["overflow_check"] and not (iv is not None and -BIG < iv[0] and iv[1] < BIG):
            if c.branch(z3.Or(t >= _rv(BIG), t <= _rv(-BIG))):
                raise FloatNonFinite("intermediate result exceeds the binary64 range")
        STATS["rounded_ops"] += 1
        r = z3.Real(c.fresh_name("fl"))
        slack = _rv(U) * _abs_term(t) + (_rv(ETA) if underflow else 0)
        c.assume(z3.And(r <= t + slack, r >= t - slack, z3.Implies(t > 0, r >= 0), z3.Implies(t < 0, r <= 0), z3.Implies(t == 0, r == 0)))
        sign = None
        if e.sign == "+" or e.sign == "0+":
            sign = "0+" if (underflow or e.sign == "0+") else "+"
        return SymRnd(SymReal(r, sign=sign), iv=(_iv_widen(iv, underflow) if iv is not None else None))

    @staticmethod
    def _both_concrete(a, b):
        ca, cb = a.v.concrete(), b.v.concrete()
        if ca is None or cb is None:
            return None
        return float(ca), float(cb)

    # ------------------------------------------------------------------ arithmetic
    def _bin(self, o, op, swap=False):
        if isinstance(o, np.ndarray) and o.ndim > 0:
            return NotImplemented
        try:
            o = SymRnd.lift(o)
        except HarnessError:
            return NotImplemented
        a, b = (o, self) if swap else (self, o)
        cc = SymRnd._both_concrete(a, b)
        ca, cb = a.v.concrete(), b.v.concrete()
        if op == "add":
            if ca == 0:
                return b
            if cb == 0:
                return a
            iv = (a.iv[0] + b.iv[0], a.iv[1] + b.iv[1]) if a.iv and b.iv else None
            return SymRnd._round(a.v + b.v, False, None if cc is None else cc[0] + cc[1], iv)
        if op == "sub":
            if cb == 0:
                return a
            if ca == 0:
                return -b
            iv = (a.iv[0] - b.iv[1], a.iv[1] - b.iv[0]) if a.iv and b.iv else None
            return SymRnd._round(a.v - b.v, False, None if cc is None else cc[0] - cc[1], iv)
        if op == "mul":
            if ca == 0 or cb == 0:
                return SymRnd(SymReal.const(0))
            if ca == 1:
                return b
            if cb == 1:
                return a
            if ca == -1:
                return -b
            if cb == -1:
                return -a
            iv = _iv_mul(a.iv, b.iv) if a.iv and b.iv else None
            if a is b and iv is not None:
                iv = (Fraction(0) if a.iv[0] <= 0 <= a.iv[1] else min(a.iv[0] ** 2, a.iv[1] ** 2), max(a.iv[0] ** 2, a.iv[1] ** 2))
            return SymRnd._round(a.v * b.v, True, None if cc is None else cc[0] * cc[1], iv)
        if op == "div":
            if cb is not None and cb == 0:
                raise FloatNonFinite("division by zero")
            nonzero = b.iv is not None and (b.iv[0] > 0 or b.iv[1] < 0)
            if cb is None and not nonzero and cur().branch(b.v.term() == 0):
                raise FloatNonFinite("division by zero")
            if cb == 1:
                return a
            if ca == 0:
                return SymRnd(SymReal.const(0))
            iv = _iv_mul(a.iv, (1 / b.iv[1], 1 / b.iv[0])) if (a.iv and nonzero) else None
            return SymRnd._round(a.v / b.v, True, None if cc is None else cc[0] / cc[1], iv)
        raise HarnessError(op)

    def __add__(self, o):
        return self._bin(o, "add")

    def __radd__(self, o):
        return self._bin(o, "add", swap=True)

    def __sub__(self, o):
        return self._bin(o, "sub")

    def __rsub__(self, o):
        return self._bin(o, "sub", swap=True)

    def __mul__(self, o):
        return self._bin(o, "mul")

    def __rmul__(self, o):
        return self._bin(o, "mul", swap=True)

    def __truediv__(self, o):
        return self._bin(o, "div")

    def __rtruediv__(self, o):
        return self._bin(o, "div", swap=True)

    def __neg__(self):
        return SymRnd(-self.v, iv=((-self.iv[1], -self.iv[0]) if self.iv else None))

    def __pos__(self):
        return self

    def __abs__(self):
        return SymRnd(abs(self.v))

    def __pow__(self, k):
        if isinstance(k, np.ndarray) and k.ndim == 0:
            k = k.item()
        if _is_number(k) and float(k) == 2.0:
            return self * self  # numpy's power fast path: x**2 is one correctly rounded multiplication
        if _is_number(k) and float(k) == 1.0:
            return self
        if _is_number(k) and float(k) == 0.5:
            return self.sqrt()
        raise HarnessError(f"power {k!r} is outside the round-off model")

    def sqrt(self):
        cv = self.v.concrete()
        if cv is not None:
            if cv < 0:
                raise FloatNonFinite("sqrt of a negative double")
            return SymRnd(SymReal.const(Fraction(math.sqrt(float(cv)))))
        if cur().branch(self.v.term() < 0):
            raise FloatNonFinite("sqrt of a negative double")
        return SymRnd._round(self.v.sqrt(), False)

    def square(self):
        return self * self

    def conjugate(self):
        return self

    # ------------------------------------------------------------------ comparisons are exact on doubles
    def _cmp(self, o, op):
        if isinstance(o, np.ndarray) and o.ndim > 0:
            return NotImplemented
        try:
            o = SymRnd.lift(o)
        except (HarnessError, FloatNonFinite):
            if _is_number(o) and math.isinf(float(o)):
                pos = float(o) > 0
                return SymBool(z3.BoolVal({"__lt__": pos, "__le__": pos, "__gt__": not pos, "__ge__": not pos, "__eq__": False, "__ne__": True}[op]))
            return NotImplemented
        return getattr(self.v, op)(o.v)

    def __lt__(self, o):
        return self._cmp(o, "__lt__")

    def __le__(self, o):
        return self._cmp(o, "__le__")

    def __gt__(self, o):
        return self._cmp(o, "__gt__")

    def __ge__(self, o):
        return self._cmp(o, "__ge__")

    def __eq__(self, o):
        return self._cmp(o, "__eq__")

    def __ne__(self, o):
        return self._cmp(o, "__ne__")

    def __hash__(self):
        raise HarnessError("SymRnd is not hashable")

    def __float__(self):
        cv = self.v.concrete()
        if cv is None:
            raise HarnessError("float() of a symbolic double")
        return float(cv)

    def isfinite(self):
        return True

    def isnan(self):
        return False

    def isinf(self):
        return False


def rnd_array(values, iv=None):
    """iv: (lo, hi) enclosing every element (the declared input domain), or None."""
    from .arr import sarr
    a = np.asarray(values, dtype=object)
    out = np.empty(a.shape, dtype=object)
    ivq = (Fraction(iv[0]), Fraction(iv[1])) if iv is not None else None
    for idx in np.ndindex(a.shape):
        x = SymRnd.lift(a[idx])
        if ivq is not None and x.iv is None:
            x = SymRnd(x.v, iv=ivq)
        out[idx] = x
    return out.view(type(sarr([0])))
