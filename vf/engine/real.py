"""Exact-real symbolic scalars (SymReal), integers (SymInt) and log-domain values (LogVal).

SymReal is a rational function kept as numerator/denominator z3 polynomial terms with a
denominator that is positive under the path condition, so that equalities and
inequalities are posed cross-multiplied (nlsat decides those quickly; nested divisions
tend to return `unknown`).  Float constants are lifted exactly (every double is a
rational).  Rounding and overflow are *not* modelled by this domain.
"""
from __future__ import annotations

import math
from fractions import Fraction
from typing import Dict, Optional, Union

import numpy as np
import z3

from .core import DomainError, HarnessError, SymBool, cur, have_ctx

Number = Union[int, float, Fraction]

CONFIG = {"exp_uf": None, "log_uf": None, "abstract_args": False, "floor_range": None, "pow_range": False}


def abstract_arg(term):
    """In 'abstract_args' mode a compound term handed to an uninterpreted function is replaced by a variable that
    is a function of the term's identity only (same term -> same variable, no defining equation).  This forgets how
    the argument was computed - a sound over-approximation for proving, used where the property does not depend on
    the arithmetic of the argument (relational / coherence obligations)."""
    if not CONFIG["abstract_args"] or z3.is_const(term) or z3.is_rational_value(term):
        return term
    c = cur()
    cache = c.notes.setdefault("_arg_names", {})
    key = term.get_id()
    if key not in cache:
        cache[key] = (z3.Real(f"arg!{len(cache)}"), term)
    return cache[key][0]



def _is_number(x) -> bool:
    return isinstance(x, (int, float, Fraction, np.integer, np.floating)) and not isinstance(x, bool)


def _frac(x) -> Fraction:
    if isinstance(x, Fraction):
        return x
    if isinstance(x, (bool, np.bool_)):
        return Fraction(int(x))
    if isinstance(x, (int, np.integer)):
        return Fraction(int(x))
    if isinstance(x, (float, np.floating)):
        xf = float(x)
        if math.isnan(xf) or math.isinf(xf):
            raise HarnessError(f"non-finite constant {xf} in the exact-real domain")
        return Fraction(xf)
    raise HarnessError(f"cannot lift {type(x).__name__} to an exact rational")


def _rv(fr: Fraction):
    return z3.RealVal(str(fr)) if fr.denominator != 1 else z3.RealVal(fr.numerator)


_ONE = z3.RealVal(1)
_ZERO = z3.RealVal(0)


def _as_inf(o):
    """+-inf as a plain float (IEEE semantics are applied by the callers), else None."""
    if isinstance(o, np.ndarray) and o.ndim == 0:
        o = o.item()
    if isinstance(o, (float, np.floating)) and math.isinf(float(o)):
        return float(o)
    return None


def _mul(a, b):
    if a is _ONE or (z3.is_rational_value(a) and a.numerator_as_long() == a.denominator_as_long()):
        return b
    if b is _ONE or (z3.is_rational_value(b) and b.numerator_as_long() == b.denominator_as_long()):
        return a
    return a * b


def _is_one(a) -> bool:
    return z3.is_rational_value(a) and a.numerator_as_long() == a.denominator_as_long()


class SymReal:
    """value = c * prod(num_i^k_i) / prod(den_j^m_j).

    c is an exact Fraction; factors are z3 Real terms identified by AST identity (z3 hash-conses
    terms, so `a0 + a1` built twice is the same factor) and are cancelled between numerator and
    denominator, and additions use the least common multiple of the factored denominators.  This keeps
    the repeated normalisations w/sum(w) that the sampler performs from blowing up polynomial degrees.
    Every denominator factor is positive under the path condition, so comparisons are posed
    cross-multiplied.  `pos` holds the ids of factors known to be positive; sign is a whole-value tag
    ('+', '0+' or None)."""
    # immutable value object: copying (copy.copy / copy.deepcopy, e.g. a deep copy of an object array) yields the same scalar
    def __copy__(self):
        return self

    def __deepcopy__(self, memo):
        return self


    __slots__ = ("c", "num", "den", "sign")

    def __init__(self, n=None, d=_ONE, sign: Optional[str] = None, _raw=None):
        if _raw is not None:
            self.c, self.num, self.den, self.sign = _raw
            return
        self.c = Fraction(1)
        self.num = {}
        self.den = {}
        self.sign = sign
        n = z3.simplify(n) if z3.is_rational_value(n) is False and False else n
        if z3.is_rational_value(n):
            self.c = Fraction(n.numerator_as_long(), n.denominator_as_long())
            if self.sign is None:
                self.sign = "+" if self.c > 0 else ("0+" if self.c == 0 else None)
        else:
            self.num[n.get_id()] = (n, 1, sign == "+")
        if not _is_one(d):
            if z3.is_rational_value(d):
                self.c = self.c / Fraction(d.numerator_as_long(), d.denominator_as_long())
            else:
                self.den[d.get_id()] = (d, 1, True)

    # ---- representation helpers
    @staticmethod
    def _prod(fs):
        t = None
        for (term, k, _p) in fs.values():
            for _ in range(k):
                t = term if t is None else t * term
        return t

    @property
    def n(self):
        """numerator term c * prod(num)."""
        p = SymReal._prod(self.num)
        if p is None:
            return _rv(self.c)
        return p if self.c == 1 else _rv(self.c) * p

    @property
    def d(self):
        p = SymReal._prod(self.den)
        return _ONE if p is None else p

    @staticmethod
    def _merge(a, b):
        out = dict(a)
        for i, (t, k, p) in b.items():
            if i in out:
                out[i] = (t, out[i][1] + k, out[i][2] or p)
            else:
                out[i] = (t, k, p)
        return out

    @staticmethod
    def _cancel(num, den):
        common = [i for i in num if i in den]
        if not common:
            return num, den
        num, den = dict(num), dict(den)
        for i in common:
            tn, kn, pn = num[i]
            td, kd, pd = den[i]
            m = min(kn, kd)
            if kn - m:
                num[i] = (tn, kn - m, pn or pd)
            else:
                del num[i]
            if kd - m:
                den[i] = (td, kd - m, pd)
            else:
                del den[i]
        return num, den

    @staticmethod
    def _minus(a, b):
        """factor multiset a with the powers of b removed (b <= a)."""
        out = {}
        for i, (t, k, p) in a.items():
            kk = k - (b[i][1] if i in b else 0)
            if kk > 0:
                out[i] = (t, kk, p)
        return out

    def _num_positive(self) -> bool:
        return all(p for (_t, _k, p) in self.num.values())

    # ---- construction helpers
    @staticmethod
    def const(x) -> "SymReal":
        fr = _frac(x)
        s = "+" if fr > 0 else ("0+" if fr == 0 else None)
        return SymReal(_raw=(fr, {}, {}, s))

    @staticmethod
    def lift(x) -> "SymReal":
        if isinstance(x, SymReal):
            return x
        if isinstance(x, SymInt):
            return SymReal(z3.ToReal(x.z), _ONE, None)
        if isinstance(x, np.ndarray) and x.ndim == 0:
            return SymReal.lift(x.item())
        return SymReal.const(x)

    def concrete(self) -> Optional[Fraction]:
        if self.c == 0:
            return Fraction(0)
        if not self.num and not self.den:
            return self.c
        return None

    def term(self):
        """single z3 term (for reporting, model evaluation, UF arguments)."""
        d = SymReal._prod(self.den)
        return self.n if d is None else self.n / d

    # ---- arithmetic
    def __add__(self, o):
        _inf = _as_inf(o)
        if _inf is not None:
            return _inf  # finite + (+-inf) = +-inf
        if isinstance(o, LogVal):
            return NotImplemented
        if isinstance(o, np.ndarray):
            return NotImplemented
        o = SymReal.lift(o)
        if self.c == 0:
            return o
        if o.c == 0:
            return self
        sign = None
        if self.sign and o.sign:
            sign = "+" if "+" in (self.sign, o.sign) else "0+"
        # least common denominator
        L = dict(self.den)
        for i, (t, k, p) in o.den.items():
            if i not in L or L[i][1] < k:
                L[i] = (t, k, True)
        ra = SymReal._minus(L, self.den)
        rb = SymReal._minus(L, o.den)
        # common numerator factors
        common = {}
        for i, (t, k, p) in self.num.items():
            if i in o.num:
                common[i] = (t, min(k, o.num[i][1]), p or o.num[i][2])
        fa = SymReal._merge(SymReal._minus(self.num, common), ra)
        fb = SymReal._merge(SymReal._minus(o.num, common), rb)
        if not fa and not fb:
            c = self.c + o.c
            if c == 0:
                return SymReal.const(0)
            num, den = SymReal._cancel(common, L)
            return SymReal(_raw=(c, num, den, sign))
        c = self.c
        ratio = o.c / self.c
        pa = SymReal._prod(fa)
        pb = SymReal._prod(fb)
        ta = pa if pa is not None else _ONE
        if pb is None:
            tb = _rv(ratio)
        else:
            tb = pb if ratio == 1 else _rv(ratio) * pb
        T = ta + tb
        tpos = (ratio > 0) and all(p for (_t, _k, p) in fa.values()) and all(p for (_t, _k, p) in fb.values())
        num = SymReal._merge(common, {T.get_id(): (T, 1, tpos)})
        num, den = SymReal._cancel(num, L)
        return SymReal(_raw=(c, num, den, sign))

    __radd__ = __add__

    def __neg__(self):
        return SymReal(_raw=(-self.c, self.num, self.den, None if self.c != 0 else "0+"))

    def __pos__(self):
        return self

    def __sub__(self, o):
        if isinstance(o, (LogVal, np.ndarray)):
            return NotImplemented
        _inf = _as_inf(o)
        if _inf is not None:
            return -_inf
        return self + (-SymReal.lift(o))

    def __rsub__(self, o):
        _inf = _as_inf(o)
        if _inf is not None:
            return _inf
        return SymReal.lift(o) + (-self)

    def __mul__(self, o):
        if isinstance(o, LogVal):
            return o * self
        if isinstance(o, np.ndarray) and o.ndim > 0:
            return NotImplemented
        _inf = _as_inf(o)
        if _inf is not None:
            # finite * (+-inf): the sign of the finite factor decides (0 * inf = nan)
            if self.sign == "+" or (self.c > 0 and self._num_positive()):
                return _inf
            c_ = cur()
            if c_.branch(self.n > 0):
                return _inf
            if c_.branch(self.n < 0):
                return -_inf
            return float("nan")
        if isinstance(o, np.ndarray):
            o = o.item()
        o = SymReal.lift(o)
        sign = None
        if self.sign and o.sign:
            sign = "+" if (self.sign == "+" and o.sign == "+") else "0+"
        elif o is self:
            sign = "0+"
        c = self.c * o.c
        if c == 0:
            return SymReal.const(0)
        num = SymReal._merge(self.num, o.num)
        den = SymReal._merge(self.den, o.den)
        num, den = SymReal._cancel(num, den)
        return SymReal(_raw=(c, num, den, sign))

    __rmul__ = __mul__

    def reciprocal(self) -> "SymReal":
        if self.c == 0:
            raise DomainError("division by zero in the exact-real domain")
        if self.sign == "+" or self._num_positive():
            sg = "+" if (self.sign == "+" or self.c > 0) else None
            num = {i: (t, k, True) for i, (t, k, p) in self.den.items()}
            den = {i: (t, k, True) for i, (t, k, p) in self.num.items()}
            return SymReal(_raw=(1 / self.c, num, den, sg))
        # unknown sign of the numerator factors: decide it through the solver
        unk = {i: f for i, f in self.num.items() if not f[2]}
        known = {i: f for i, f in self.num.items() if f[2]}
        P = SymReal._prod(unk)
        c = cur()
        if c.branch(P > 0):
            newden = SymReal._merge({i: (t, k, True) for i, (t, k, p) in known.items()},
                                    {P.get_id(): (P, 1, True)} if len(unk) > 1 or list(unk.values())[0][1] > 1
                                    else {i: (t, k, True) for i, (t, k, p) in unk.items()})
            cc = 1 / self.c
        elif c.branch(P < 0):
            Q = -P
            newden = SymReal._merge({i: (t, k, True) for i, (t, k, p) in known.items()}, {Q.get_id(): (Q, 1, True)})
            cc = -1 / self.c
        else:
            raise DomainError("division by zero in the exact-real domain")
        num = {i: (t, k, True) for i, (t, k, p) in self.den.items()}
        sg = "+" if cc > 0 else None
        return SymReal(_raw=(cc, num, newden, sg))

    def __truediv__(self, o):
        if isinstance(o, np.ndarray):
            return NotImplemented
        o = SymReal.lift(o)
        return self * o.reciprocal()

    def __rtruediv__(self, o):
        return SymReal.lift(o) * self.reciprocal()

    def __pow__(self, e):
        if CONFIG["pow_range"] and isinstance(e, SymReal) and e.concrete() is None:
            # range abstraction of x**y for x >= 0, y > 0 (magnitude questions only): 0**y = 0, otherwise an arbitrary positive value
            c_ = cur()
            if c_.branch(self.n < 0) or not c_.branch(e.n > 0):
                raise HarnessError("range abstraction of pow: needs base >= 0 and exponent > 0")
            if c_.branch(self.n == 0):
                return SymReal.const(0)
            r = z3.Real(c_.fresh_name("pow"))
            c_.assume(r > 0)
            return SymReal(r, sign="+")
        if isinstance(e, SymReal):
            e = e.concrete()
            if e is None:
                raise HarnessError("symbolic exponent on SymReal")
        fe = _frac(e)
        if fe.denominator == 1:
            k = fe.numerator
            if k == 0:
                return SymReal.const(1)
            base = self if k > 0 else self.reciprocal()
            kk = abs(k)
            num = {i: (t, p * kk, pos or kk % 2 == 0) for i, (t, p, pos) in base.num.items()}
            den = {i: (t, p * kk, True) for i, (t, p, pos) in base.den.items()}
            sign = base.sign
            if kk % 2 == 0:
                sign = "+" if base.sign == "+" else "0+"
            elif sign is None:
                sign = None
            return SymReal(_raw=(base.c ** kk, num, den, sign))
        if fe == Fraction(1, 2):
            return self.sqrt()
        raise HarnessError(f"unsupported exponent {e} on SymReal")

    def __rpow__(self, base):
        """number ** symbolic exponent (range abstraction only: magnitude questions)"""
        if not CONFIG["pow_range"]:
            raise HarnessError("symbolic exponent on a plain number")
        c_ = cur()
        if not c_.branch(self.n > 0):
            raise HarnessError("range abstraction of pow: needs exponent > 0")
        b_ = float(base)
        if b_ == 0.0:
            return 0.0
        if math.isinf(b_) and b_ > 0:
            return float("inf")
        if not (b_ > 0):
            raise HarnessError("range abstraction of pow: needs base >= 0")
        r = z3.Real(c_.fresh_name("pow"))
        c_.assume(r > 0)
        return SymReal(r, sign="+")

    def sqrt(self) -> "SymReal":
        c = cur()
        if self.c == 0:
            return SymReal.const(0)
        # exact roots of perfect squares of positive factors
        def isq(fr):
            if fr < 0:
                return None
            a, b = math.isqrt(fr.numerator), math.isqrt(fr.denominator)
            return Fraction(a, b) if a * a == fr.numerator and b * b == fr.denominator else None
        rc = isq(self.c)
        if rc is not None and all(k % 2 == 0 and p for (_t, k, p) in self.num.values()) and \
                all(k % 2 == 0 for (_t, k, p) in self.den.values()):
            num = {i: (t, k // 2, p) for i, (t, k, p) in self.num.items()}
            den = {i: (t, k // 2, p) for i, (t, k, p) in self.den.items()}
            return SymReal(_raw=(rc, num, den, "+" if rc > 0 else "0+"))
        if self.sign is None and not (self.c > 0 and self._num_positive()):
            if not c.branch(self.n >= 0):
                raise DomainError("sqrt of a negative value")
        pos = self.sign == "+" or (self.c > 0 and self._num_positive())
        cache = c.notes.setdefault("_sqrt_cache", {})
        key = (self.n.get_id(), self.d.get_id())
        if key in cache:  # the same radicand has one (non-negative) root: reuse its variable
            r = cache[key][0]
        else:
            r = z3.Real(c.fresh_name("sqrt"))
            cache[key] = (r, self.n, self.d)
            c.assume(r >= 0)
            c.assume(_mul(r * r, self.d) == self.n)
            if pos:
                c.assume(r > 0)
        return SymReal(_raw=(Fraction(1), {r.get_id(): (r, 1, pos)}, {}, "+" if pos else "0+"))

    def __abs__(self):
        if self.sign or (self.c > 0 and self._num_positive()):
            return self
        if cur().branch(self.n >= 0):
            return SymReal(_raw=(self.c, self.num, self.den, "0+"))
        return SymReal(_raw=(-self.c, self.num, self.den, "+"))

    def square(self):
        return self * self

    def conjugate(self):
        return self

    # ---- comparisons (cross-multiplied; denominator factors are positive)
    def _cmp(self, o, op):
        if isinstance(o, np.ndarray):
            return NotImplemented
        if isinstance(o, (float, np.floating)) and math.isinf(float(o)):
            pos = float(o) > 0
            val = {"lt": pos, "le": pos, "gt": not pos, "ge": not pos, "eq": False, "ne": True}[op]
            return SymBool(z3.BoolVal(val))
        o = SymReal.lift(o)
        # multiply both sides by lcm(den) / gcd(den): only the non-shared denominator factors
        shared = {}
        for i, (t, k, p) in self.den.items():
            if i in o.den:
                shared[i] = (t, min(k, o.den[i][1]), True)
        da = SymReal._minus(self.den, shared)
        db = SymReal._minus(o.den, shared)
        na, nb = self.num, o.num
        # drop positive numerator factors present on both sides
        both = {}
        if self.c != 0 and o.c != 0:
            for i, (t, k, p) in na.items():
                if i in nb and p and nb[i][2]:
                    both[i] = (t, min(k, nb[i][1]), True)
        la = SymReal._merge(SymReal._minus(na, both), db)
        lb = SymReal._merge(SymReal._minus(nb, both), da)
        pa, pb = SymReal._prod(la), SymReal._prod(lb)
        a = _rv(self.c) if pa is None else (pa if self.c == 1 else _rv(self.c) * pa)
        b = _rv(o.c) if pb is None else (pb if o.c == 1 else _rv(o.c) * pb)
        if self.c == 0:
            a = _ZERO
        if o.c == 0:
            b = _ZERO
        if op == "lt":
            return SymBool(a < b)
        if op == "le":
            return SymBool(a <= b)
        if op == "gt":
            return SymBool(a > b)
        if op == "ge":
            return SymBool(a >= b)
        if op == "eq":
            return SymBool(a == b)
        return SymBool(a != b)

    def __lt__(self, o):
        return self._cmp(o, "lt")

    def __le__(self, o):
        return self._cmp(o, "le")

    def __gt__(self, o):
        return self._cmp(o, "gt")

    def __ge__(self, o):
        return self._cmp(o, "ge")

    def __eq__(self, o):
        return self._cmp(o, "eq")

    def __ne__(self, o):
        return self._cmp(o, "ne")

    def __hash__(self):
        raise HarnessError("SymReal is not hashable")

    # ---- numpy object-loop hooks (np.sqrt(arr) calls elem.sqrt(), etc.)
    def log(self):
        if CONFIG["exp_uf"] is not None:
            # companion of the uninterpreted exp: an uninterpreted log (no algebraic laws are assumed)
            if self.sign != "+" and not (self.c > 0 and self._num_positive()):
                if not cur().branch(self.n > 0):
                    raise DomainError("log of a non-positive value")
            return SymReal(CONFIG["log_uf"](abstract_arg(self.term())), _ONE, None)
        if self.sign != "+" and not (self.c > 0 and self._num_positive()):
            if not cur().branch(self.n > 0):
                raise DomainError("log of a non-positive value")
            return LogVal({}, SymReal(_raw=(self.c, self.num, self.den, "+")))
        return LogVal({}, self if self.sign == "+" else SymReal(_raw=(self.c, self.num, self.den, "+")))

    def exp(self):
        cc = self.concrete()
        if cc is not None and cc == 0:
            return SymReal.const(1)
        if CONFIG["exp_uf"] is not None:
            # uninterpreted, positive, (congruent) exponential: sound over-approximation of exp
            # (the argument of exp is kept: relational obligations need beta*(l'+c - l-c) == beta*(l'-l))
            return SymReal(CONFIG["exp_uf"](self.term()), _ONE, "+")
        raise HarnessError("exp of a plain real is transcendental; use LogVal inputs")

    def __mod__(self, m):
        """Python/numpy float modulo for a concrete positive modulus: x - m*floor(x/m)."""
        mf = _frac(m)
        if mf <= 0:
            raise HarnessError("modulus must be a positive constant")
        q = (self / mf).floor()
        return self - q * mf

    def floor(self):
        c = cur()
        cc = self.concrete()
        if cc is not None:
            return SymReal.const(math.floor(cc))
        if CONFIG["floor_range"] is not None:
            # declared bound on the integer part: decide it by forking (no integer variables in later queries)
            lo, hi = CONFIG["floor_range"]
            for k in range(lo, hi + 1):
                if bool((self >= k) & (self < k + 1)):
                    return SymReal.const(k)
            from .core import BoundExceeded
            raise BoundExceeded(f"integer part outside the declared range [{lo},{hi}]")
        cache = c.notes.setdefault("_floor_cache", {})
        key = (self.n.get_id(), self.d.get_id())
        if key in cache:
            return SymReal(cache[key][0], _ONE, None)
        k = z3.Int(c.fresh_name("floor"))
        kr = z3.ToReal(k)
        cache[key] = (kr, self.n, self.d)
        c.assume(z3.And(_mul(kr, self.d) <= self.n, self.n < _mul(kr + 1, self.d)))
        return SymReal(kr, _ONE, None)

    __floor__ = floor

    def isfinite(self):
        return True

    def isinf(self):
        return False

    def isnan(self):
        return False

    def __float__(self):
        cc = self.concrete()
        if cc is not None:
            return float(cc)
        raise HarnessError("float() of a symbolic real (silent concretisation refused)")

    def __int__(self):
        cc = self.concrete()
        if cc is not None:
            return int(cc)
        raise HarnessError("int() of a symbolic real (silent concretisation refused)")

    def __bool__(self):
        return bool(self != 0)

    def __format__(self, spec):
        return "<sym>"

    def __repr__(self):
        return f"SymReal({z3.simplify(self.term())})"


def sym_max(a, b):
    return a if bool(a >= b) else b


class SymInt:
    """Symbolic mathematical integer (Python int semantics)."""
    # immutable value object: copying (copy.copy / copy.deepcopy, e.g. a deep copy of an object array) yields the same scalar
    def __copy__(self):
        return self

    def __deepcopy__(self, memo):
        return self


    __slots__ = ("z",)

    def __init__(self, z):
        self.z = z

    @staticmethod
    def lift(x):
        if isinstance(x, SymInt):
            return x
        if isinstance(x, (int, np.integer)) and not isinstance(x, bool):
            return SymInt(z3.IntVal(int(x)))
        raise HarnessError(f"cannot lift {x!r} to SymInt")

    def concrete(self):
        v = z3.simplify(self.z)
        return v.as_long() if z3.is_int_value(v) else None

    def _bin(self, o, f, rev=False):
        if isinstance(o, (float, np.floating, Fraction, SymReal)):
            a = SymReal.lift(self)
            b = SymReal.lift(o)
            return None
        o = SymInt.lift(o)
        return SymInt(f(o.z, self.z) if rev else f(self.z, o.z))

    def __add__(self, o):
        if isinstance(o, (float, np.floating, Fraction, SymReal)):
            return SymReal.lift(self) + o
        return SymInt(self.z + SymInt.lift(o).z)

    __radd__ = __add__

    def __sub__(self, o):
        if isinstance(o, (float, np.floating, Fraction, SymReal)):
            return SymReal.lift(self) - o
        return SymInt(self.z - SymInt.lift(o).z)

    def __rsub__(self, o):
        if isinstance(o, (float, np.floating, Fraction, SymReal)):
            return SymReal.lift(o) - SymReal.lift(self)
        return SymInt(SymInt.lift(o).z - self.z)

    def __mul__(self, o):
        if isinstance(o, (float, np.floating, Fraction, SymReal)):
            return SymReal.lift(self) * o
        return SymInt(self.z * SymInt.lift(o).z)

    __rmul__ = __mul__

    def __neg__(self):
        return SymInt(-self.z)

    def __truediv__(self, o):
        return SymReal.lift(self) / (SymReal.lift(o))

    def __rtruediv__(self, o):
        return SymReal.lift(o) / SymReal.lift(self)

    def __mod__(self, o):
        o = SymInt.lift(o)
        oc = o.concrete()
        if oc is None or oc <= 0:
            raise HarnessError("SymInt % non-constant or non-positive modulus")
        return SymInt(self.z % o.z)  # z3 mod: result in [0, |o|) == Python's for o>0

    def __floordiv__(self, o):
        o = SymInt.lift(o)
        oc = o.concrete()
        if oc is None or oc <= 0:
            raise HarnessError("SymInt // non-constant or non-positive divisor")
        return SymInt(self.z / o.z)

    def _cmp(self, o, op):
        if isinstance(o, (float, np.floating, Fraction, SymReal)):
            return getattr(SymReal.lift(self), op)(o)
        o = SymInt.lift(o)
        import operator
        return SymBool(getattr(operator, op.strip("_"))(self.z, o.z))

    def __lt__(self, o):
        return self._cmp(o, "__lt__")

    def __le__(self, o):
        return self._cmp(o, "__le__")

    def __gt__(self, o):
        return self._cmp(o, "__gt__")

    def __ge__(self, o):
        return self._cmp(o, "__ge__")

    def __eq__(self, o):
        if o is None:
            return False
        return self._cmp(o, "__eq__")

    def __ne__(self, o):
        if o is None:
            return True
        return self._cmp(o, "__ne__")

    def __hash__(self):
        c = self.concrete()
        if c is None:
            raise HarnessError("hash of symbolic int")
        return hash(c)

    def __index__(self):
        c = self.concrete()
        if c is not None:
            return c
        return self.resolve()

    __int__ = __index__

    def resolve(self, lo: Optional[int] = None, hi: Optional[int] = None) -> int:
        """Fork over a small concrete domain (declared by path constraints)."""
        c = cur()
        # enumerate feasible values by asking the solver; requires a bounded domain
        tried = 0
        m_lo = lo if lo is not None else -64
        m_hi = hi if hi is not None else 64
        for v in range(m_lo, m_hi + 1):
            tried += 1
            if c.branch(self.z == v):
                return v
        raise HarnessError("SymInt.resolve: value outside the declared small domain")

    def __bool__(self):
        return bool(self != 0)

    def __format__(self, spec):
        return "<symint>"

    def __repr__(self):
        return f"SymInt({z3.simplify(self.z)})"


# --------------------------------------------------------------------------- log domain


class LogAtom:
    """A log-likelihood-like unknown  ell = D * log(a),  a > 0 a z3 Real.
    Concrete rational multiples k/D of ell exponentiate to the polynomial a^k."""
    # immutable value object: copying (copy.copy / copy.deepcopy, e.g. a deep copy of an object array) yields the same scalar
    def __copy__(self):
        return self

    def __deepcopy__(self, memo):
        return self


    __slots__ = ("name", "a", "D")

    def __init__(self, name: str, D: int):
        self.name = name
        self.D = D
        self.a = z3.Real(f"expatom_{name}")

    def __repr__(self):
        return f"ell[{self.name}]"


class LogVal:
    """value = sum_i c_i * ell_i + log(q); c_i exact rationals, q a positive SymReal.

    The exponential homomorphism made explicit: + and - add coefficient vectors and
    multiply q; exp() is the polynomial prod a_i^(c_i D) * q. No transcendental function
    is ever evaluated."""
    # immutable value object: copying (copy.copy / copy.deepcopy, e.g. a deep copy of an object array) yields the same scalar
    def __copy__(self):
        return self

    def __deepcopy__(self, memo):
        return self


    __slots__ = ("coef", "q")

    def __init__(self, coef: Dict[LogAtom, Fraction], q: Optional[SymReal] = None):
        self.coef = {a: c for a, c in coef.items() if c != 0}
        self.q = q if q is not None else SymReal.const(1)

    @staticmethod
    def atom(name: str, D: int) -> "LogVal":
        at = LogAtom(name, D)
        if have_ctx():
            c = cur()
            c.register(f"expatom_{name}", at.a)
            c.assume(at.a > 0)
        return LogVal({at: Fraction(1)})

    @staticmethod
    def of_positive(q: SymReal) -> "LogVal":
        return LogVal({}, q)

    @staticmethod
    def log_of(x) -> "LogVal":
        """exact log of a positive concrete number or SymReal."""
        if isinstance(x, LogVal):
            raise HarnessError("log of a LogVal")
        x = SymReal.lift(x)
        return x.log()

    def is_zero(self) -> bool:
        return not self.coef and self.q.concrete() == 1

    # ---- arithmetic
    def _lift_other(self, o):
        if isinstance(o, LogVal):
            return o
        if isinstance(o, np.ndarray) and o.ndim == 0:
            return self._lift_other(o.item())
        if _is_number(o):
            of = float(o) if not isinstance(o, Fraction) else o
            if of == 0:
                return LogVal({})
            if isinstance(of, float) and math.isinf(of):
                return of
            raise HarnessError(
                f"adding the plain number {o!r} to a log-domain value would need exp({o}); "
                "constants must enter through np.log (proxy) so that they stay exact")
        if isinstance(o, SymReal):
            cc = o.concrete()
            if cc == 0:
                return LogVal({})
            raise HarnessError("adding a plain SymReal to a LogVal")
        return None

    def __add__(self, o):
        if isinstance(o, np.ndarray) and o.ndim > 0:
            return NotImplemented
        o = self._lift_other(o)
        if o is None:
            return NotImplemented
        if isinstance(o, float):
            return o  # +-inf absorbs
        coef = dict(self.coef)
        for a, c in o.coef.items():
            coef[a] = coef.get(a, Fraction(0)) + c
        return LogVal(coef, self.q * o.q)

    __radd__ = __add__

    def __neg__(self):
        return LogVal({a: -c for a, c in self.coef.items()}, self.q.reciprocal())

    def __sub__(self, o):
        if isinstance(o, np.ndarray) and o.ndim > 0:
            return NotImplemented
        o = self._lift_other(o)
        if o is None:
            return NotImplemented
        if isinstance(o, float):
            return -o
        return self + (-o)

    def __rsub__(self, o):
        o = self._lift_other(o)
        if o is None:
            return NotImplemented
        if isinstance(o, float):
            return o
        return o + (-self)

    def __mul__(self, o):
        if isinstance(o, np.ndarray) and o.ndim > 0:
            return NotImplemented
        if isinstance(o, np.ndarray):
            o = o.item()
        if isinstance(o, SymReal):
            cc = o.concrete()
            if cc is None:
                raise HarnessError("LogVal * symbolic real: symbolic exponents are outside the encoded fragment")
            o = cc
        if isinstance(o, LogVal):
            raise HarnessError("product of two log-domain values")
        if not _is_number(o):
            return NotImplemented
        c = _frac(o)
        coef = {a: k * c for a, k in self.coef.items()}
        qc = self.q.concrete()
        if qc == 1:
            q = self.q
        elif c.denominator == 1:
            q = self.q ** c.numerator
        elif c.denominator == 2:
            q = self.q.sqrt() ** c.numerator  # exact: a fresh r >= 0 with r*r == q
        else:
            raise HarnessError(f"LogVal with q != 1 scaled by non-integer {c}")
        return LogVal(coef, q)

    __rmul__ = __mul__

    def __truediv__(self, o):
        if _is_number(o):
            return self * (Fraction(1) / _frac(o))
        return NotImplemented

    # ---- exponentiation
    def exp(self) -> SymReal:
        num, den = {}, {}
        for at, c in self.coef.items():
            k = c * at.D
            if k.denominator != 1:
                raise HarnessError(f"exponent {c} of {at} is off the declared grid 1/{at.D}")
            k = k.numerator
            if k > 0:
                num[at.a.get_id()] = (at.a, k, True)
            elif k < 0:
                den[at.a.get_id()] = (at.a, -k, True)
        return SymReal(_raw=(Fraction(1), num, den, "+")) * self.q

    def logaddexp(self, o):
        if isinstance(o, float) and math.isinf(o) and o < 0:
            return self
        o = self._lift_other(o)
        return LogVal({}, self.exp() + o.exp())

    # ---- comparisons via monotonicity of exp
    def _cmp(self, o, op):
        if isinstance(o, np.ndarray) and o.ndim > 0:
            return NotImplemented
        if isinstance(o, (float, np.floating)) and math.isinf(float(o)):
            pos = float(o) > 0
            val = {"__lt__": pos, "__le__": pos, "__gt__": not pos, "__ge__": not pos, "__eq__": False,
                   "__ne__": True}[op]
            return SymBool(z3.BoolVal(val))
        ol = self._lift_other(o)
        if ol is None:
            return NotImplemented
        # compare exp(self - o) with 1 to keep degrees low
        diff = self - ol
        return getattr(diff.exp(), op)(1)

    def __lt__(self, o):
        return self._cmp(o, "__lt__")

    def __le__(self, o):
        return self._cmp(o, "__le__")

    def __gt__(self, o):
        return self._cmp(o, "__gt__")

    def __ge__(self, o):
        return self._cmp(o, "__ge__")

    def __eq__(self, o):
        return self._cmp(o, "__eq__")

    def __ne__(self, o):
        return self._cmp(o, "__ne__")

    def __hash__(self):
        raise HarnessError("LogVal is not hashable")

    def isfinite(self):
        return True

    def isinf(self):
        return False

    def isnan(self):
        return False

    def conjugate(self):
        return self

    def __float__(self):
        if self.is_zero():
            return 0.0
        raise HarnessError("float() of a symbolic log-domain value")

    def __format__(self, spec):
        return "<logval>"

    def __repr__(self):
        parts = [f"{c}*{a}" for a, c in self.coef.items()]
        return f"LogVal({' + '.join(parts) or '0'} + log({self.q}))"
