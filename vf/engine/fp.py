class SymFP: pass
class SymBV: pass
