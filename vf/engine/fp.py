"""Bit-precise IEEE-754 binary64 scalars (SymFP) and int64 bit-vectors (SymBV) with numpy's
semantics for %, floor, astype(int) (x86-64 cvttsd2si: out-of-range -> INT64_MIN) and
int64 -> float64 conversion (round to nearest even)."""
from __future__ import annotations

import math
import struct

import numpy as np
import z3

from .core import HarnessError, SymBool, cur

FP = z3.Float64()
RNE = z3.RNE()
RTZ = z3.RTZ()
RTN = z3.RTN()
INT64_MIN = z3.BitVecVal(-(2 ** 63), 64)


def fpval(x: float):
    bits = struct.unpack("<Q", struct.pack("<d", float(x)))[0]
    return z3.fpBVToFP(z3.BitVecVal(bits, 64), FP)


def fp_bits(term):
    return z3.fpToIEEEBV(term)


class SymBV:
    """numpy int64."""
    # immutable value object: copying (copy.copy / copy.deepcopy, e.g. a deep copy of an object array) yields the same scalar
    def __copy__(self):
        return self

    def __deepcopy__(self, memo):
        return self


    __slots__ = ("z",)

    def __init__(self, z):
        self.z = z

    @staticmethod
    def lift(x):
        if isinstance(x, SymBV):
            return x
        if isinstance(x, (int, np.integer)) and not isinstance(x, bool):
            return SymBV(z3.BitVecVal(int(x), 64))
        raise HarnessError(f"cannot lift {x!r} to int64")

    def to_fp(self) -> "SymFP":
        return SymFP(z3.fpSignedToFP(RNE, self.z, FP))

    def __mod__(self, o):
        o = SymBV.lift(o)
        oc = z3.simplify(o.z)
        if not z3.is_bv_value(oc) or oc.as_signed_long() <= 0:
            raise HarnessError("int64 % non-constant or non-positive modulus")
        r = z3.SRem(self.z, o.z)
        return SymBV(z3.If(r < 0, r + o.z, r))  # numpy/Python: sign of the divisor

    def __add__(self, o):
        if isinstance(o, (SymFP, float, np.floating)):
            return self.to_fp() + o
        return SymBV(self.z + SymBV.lift(o).z)

    __radd__ = __add__

    def __sub__(self, o):
        if isinstance(o, (SymFP, float, np.floating)):
            return self.to_fp() - o
        return SymBV(self.z - SymBV.lift(o).z)

    def __rsub__(self, o):
        if isinstance(o, (SymFP, float, np.floating)):
            return SymFP.lift(o) - self.to_fp()
        return SymBV(SymBV.lift(o).z - self.z)

    def __and__(self, o):
        return SymBV(self.z & SymBV.lift(o).z)

    __rand__ = __and__

    def __or__(self, o):
        return SymBV(self.z | SymBV.lift(o).z)

    __ror__ = __or__

    def __xor__(self, o):
        return SymBV(self.z ^ SymBV.lift(o).z)

    def __rshift__(self, o):
        return SymBV(self.z >> SymBV.lift(o).z)  # arithmetic shift, as numpy int64

    def __lshift__(self, o):
        return SymBV(self.z << SymBV.lift(o).z)

    def __neg__(self):
        return SymBV(-self.z)

    def __mul__(self, o):
        if isinstance(o, (SymFP, float, np.floating)):
            return self.to_fp() * o
        return SymBV(self.z * SymBV.lift(o).z)

    __rmul__ = __mul__

    def astype(self, dtype, *a, **k):
        dt = np.dtype(dtype)
        if dt.kind in "iu":
            return self
        if dt.kind == "f":
            return self.to_fp()
        raise HarnessError(f"SymBV.astype({dtype})")

    def __eq__(self, o):
        return SymBool(self.z == SymBV.lift(o).z)

    def __ne__(self, o):
        return SymBool(self.z != SymBV.lift(o).z)

    def __lt__(self, o):
        return SymBool(self.z < SymBV.lift(o).z)

    def __le__(self, o):
        return SymBool(self.z <= SymBV.lift(o).z)

    def __gt__(self, o):
        return SymBool(self.z > SymBV.lift(o).z)

    def __ge__(self, o):
        return SymBool(self.z >= SymBV.lift(o).z)

    def __hash__(self):
        raise HarnessError("SymBV is not hashable")

    def __repr__(self):
        return f"SymBV({z3.simplify(self.z)})"


class SymFP:

    # immutable value object: copying (copy.copy / copy.deepcopy, e.g. a deep copy of an object array) yields the same scalar
    def __copy__(self):
        return self

    def __deepcopy__(self, memo):
        return self

    __slots__ = ("z",)

    def __init__(self, z):
        self.z = z

    @staticmethod
    def lift(x):
        if isinstance(x, SymFP):
            return x
        if isinstance(x, SymBV):
            return x.to_fp()
        if isinstance(x, (float, np.floating)):
            return SymFP(fpval(float(x)))
        if isinstance(x, (int, np.integer)) and not isinstance(x, bool):
            if abs(int(x)) > 2 ** 53:
                return SymBV.lift(x).to_fp()
            return SymFP(fpval(float(int(x))))
        if isinstance(x, np.ndarray) and x.ndim == 0:
            return SymFP.lift(x.item())
        raise HarnessError(f"cannot lift {type(x).__name__} to float64")

    def _bin(self, o, f, rev=False):
        if isinstance(o, np.ndarray) and o.ndim > 0:
            return NotImplemented
        o = SymFP.lift(o)
        return SymFP(f(RNE, o.z, self.z) if rev else f(RNE, self.z, o.z))

    def __add__(self, o):
        return self._bin(o, z3.fpAdd)

    __radd__ = __add__

    def __sub__(self, o):
        return self._bin(o, z3.fpSub)

    def __rsub__(self, o):
        return self._bin(o, z3.fpSub, rev=True)

    def __mul__(self, o):
        return self._bin(o, z3.fpMul)

    __rmul__ = __mul__

    def __truediv__(self, o):
        return self._bin(o, z3.fpDiv)

    def __rtruediv__(self, o):
        return self._bin(o, z3.fpDiv, rev=True)

    def __neg__(self):
        return SymFP(z3.fpNeg(self.z))

    def __abs__(self):
        return SymFP(z3.fpAbs(self.z))

    def __mod__(self, o):
        """numpy float remainder (npy_divmod): fmod, then sign of the divisor.
        Modelled for the moduli 1.0 and 2.0 (fmod is exact; no multiplier is used)."""
        if not isinstance(o, (float, np.floating, int)) or float(o) not in (1.0, 2.0):
            raise HarnessError("float % is modelled for a modulus of exactly 1.0 or 2.0 only")
        b = float(o)
        x = self.z
        zero = fpval(0.0)
        if b == 1.0:
            t = z3.fpRoundToIntegral(RTZ, x)
        else:
            # trunc(x/2)*2 with halving/doubling done on the exponent field (valid for |x| >= 2)
            bits = z3.fpToIEEEBV(x)
            half = z3.fpBVToFP(bits - z3.BitVecVal(1 << 52, 64), FP)
            th = z3.fpRoundToIntegral(RTZ, half)  # integer, |th| >= 1
            dbl = z3.fpBVToFP(z3.fpToIEEEBV(th) + z3.BitVecVal(1 << 52, 64), FP)
            big = z3.fpGEQ(z3.fpAbs(x), fpval(2.0))
            t = z3.If(big, dbl, zero)
        mod = z3.fpSub(RNE, x, t)  # fmod(x, b); exact
        bb = fpval(b)
        res = z3.If(z3.fpIsZero(mod), zero, z3.If(z3.fpLT(mod, zero), z3.fpAdd(RNE, mod, bb), mod))
        return SymFP(res)

    def floor(self):
        return SymFP(z3.fpRoundToIntegral(RTN, self.z))

    __floor__ = floor

    def rint(self):
        return SymFP(z3.fpRoundToIntegral(RNE, self.z))

    def to_int64(self) -> SymBV:
        x = self.z
        lo = fpval(-(2.0 ** 63))
        hi = fpval(2.0 ** 63)
        in_range = z3.And(z3.fpGEQ(x, lo), z3.fpLT(x, hi))  # false for NaN
        return SymBV(z3.If(in_range, z3.fpToSBV(RTZ, x, z3.BitVecSort(64)), INT64_MIN))

    def astype(self, dtype, *a, **k):
        dt = np.dtype(dtype)
        if dt.kind in "iu":
            return self.to_int64()
        if dt.kind == "f":
            return self
        raise HarnessError(f"SymFP.astype({dtype})")

    def copy(self):
        return self

    def isfinite(self):
        return SymBool(z3.Not(z3.Or(z3.fpIsNaN(self.z), z3.fpIsInf(self.z))))

    def _cmp(self, o, f):
        if isinstance(o, np.ndarray) and o.ndim > 0:
            return NotImplemented
        return SymBool(f(self.z, SymFP.lift(o).z))

    def __lt__(self, o):
        return self._cmp(o, z3.fpLT)

    def __le__(self, o):
        return self._cmp(o, z3.fpLEQ)

    def __gt__(self, o):
        return self._cmp(o, z3.fpGT)

    def __ge__(self, o):
        return self._cmp(o, z3.fpGEQ)

    def __eq__(self, o):
        return self._cmp(o, z3.fpEQ)

    def __ne__(self, o):
        return self._cmp(o, z3.fpNEQ)

    def __hash__(self):
        raise HarnessError("SymFP is not hashable")

    def __float__(self):
        v = z3.simplify(self.z)
        if z3.is_fp_value(v):
            from .core import z3_value_to_py
            return z3_value_to_py(v)
        raise HarnessError("float() of a symbolic double")

    def __format__(self, spec):
        return "<symfp>"

    def __repr__(self):
        return f"SymFP({z3.simplify(self.z)})"


def ite(cond, a, b):
    c = cond.z if isinstance(cond, SymBool) else z3.BoolVal(bool(cond))
    a = SymFP.lift(a)
    b = SymFP.lift(b)
    return SymFP(z3.If(c, a.z, b.z))


def sym_where(cond, a, b):
    """np.where that stays symbolic (no fork) when the condition is a SymBool."""
    if isinstance(cond, np.ndarray) and cond.ndim == 0:
        cond = cond.item()
    if isinstance(cond, SymBool):
        aa = a.item() if isinstance(a, np.ndarray) and a.ndim == 0 else a
        bb = b.item() if isinstance(b, np.ndarray) and b.ndim == 0 else b
        return ite(cond, aa, bb)
    if isinstance(cond, np.ndarray) and cond.dtype == object:
        from .arr import SymArray
        a_b = np.broadcast_to(np.asarray(a, dtype=object), cond.shape)
        b_b = np.broadcast_to(np.asarray(b, dtype=object), cond.shape)
        out = np.empty(cond.shape, dtype=object)
        for idx in np.ndindex(cond.shape):
            c = cond[idx]
            out[idx] = ite(c, a_b[idx], b_b[idx]) if isinstance(c, SymBool) else (a_b[idx] if c else b_b[idx])
        return out.view(SymArray)
    return np.where(cond, a, b)
