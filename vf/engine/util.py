"""Small helpers shared by the property harnesses."""
from __future__ import annotations

import contextlib
from fractions import Fraction
from typing import Any, Callable, List, Optional

import numpy as np
import z3

from .core import PathCtx, SymBool, HarnessError
from .real import SymReal, SymInt, LogVal, _rv, _frac
from .arr import sarr


def real(ctx: PathCtx, name: str, lo=None, hi=None, lo_strict=False, hi_strict=False) -> SymReal:
    z = ctx.register(name, z3.Real(name))
    sign = None
    if lo is not None:
        ctx.assume(z > _rv(_frac(lo)) if lo_strict else z >= _rv(_frac(lo)))
        if _frac(lo) > 0 or (_frac(lo) == 0 and lo_strict):
            sign = "+"
        elif _frac(lo) == 0:
            sign = "0+"
    if hi is not None:
        ctx.assume(z < _rv(_frac(hi)) if hi_strict else z <= _rv(_frac(hi)))
    return SymReal(z, sign=sign)


def integer(ctx: PathCtx, name: str, lo=None, hi=None) -> SymInt:
    z = ctx.register(name, z3.Int(name))
    if lo is not None:
        ctx.assume(z >= lo)
    if hi is not None:
        ctx.assume(z <= hi)
    return SymInt(z)


def boolean(ctx: PathCtx, name: str) -> SymBool:
    return SymBool(ctx.register(name, z3.Bool(name)))


def reals(ctx, prefix, n, **kw) -> List[SymReal]:
    return [real(ctx, f"{prefix}{i}", **kw) for i in range(n)]


def z(x):
    """z3 term of a scalar (SymReal -> n/d term; numbers lifted exactly)."""
    if isinstance(x, SymReal):
        return x.term()
    if isinstance(x, SymInt):
        return x.z
    if isinstance(x, SymBool):
        return x.z
    return _rv(_frac(x))


def scalar(x):
    """unwrap 0-d / size-1 arrays returned by numpy reductions."""
    if isinstance(x, np.ndarray):
        if x.size != 1:
            raise HarnessError(f"expected a scalar, got array of shape {x.shape}")
        return x.reshape(-1)[0]
    return x


def _b(r):
    return r.z if isinstance(r, SymBool) else z3.BoolVal(bool(r))


def eq(a, b):
    """cross-multiplied equality of two real-valued scalars as a z3 Bool."""
    return _b(SymReal.lift(scalar(a)) == SymReal.lift(scalar(b)))


def le(a, b):
    return _b(SymReal.lift(scalar(a)) <= SymReal.lift(scalar(b)))


def lt(a, b):
    return _b(SymReal.lift(scalar(a)) < SymReal.lift(scalar(b)))


def fl(x) -> float:
    if isinstance(x, Fraction):
        return float(x)
    return float(x)


@contextlib.contextmanager
def scripted_random(**funcs):
    """Patch functions of the real numpy.random module (concrete replay of solver models)."""
    saved = {}
    for k, f in funcs.items():
        saved[k] = getattr(np.random, k)
        setattr(np.random, k, f)
    try:
        yield
    finally:
        for k, f in saved.items():
            setattr(np.random, k, f)


def seq_provider(values: list):
    """returns f(*a, **k) that pops scripted values in order."""
    it = iter(values)

    def f(*a, **k):
        try:
            return next(it)
        except StopIteration:
            raise RuntimeError("scripted random values exhausted")
    return f
