"""numpy glue: object arrays of symbolic scalars, an `np` proxy that is patched into the
tempest module under analysis for the entry points that numpy's object loops cannot
reach (np.random.*, exact np.log of integers, array constructors, a few linalg closed
forms), and the nondeterministic random stub."""
from __future__ import annotations

import contextlib
import math
import types
from fractions import Fraction
from typing import Any, Callable, Dict, List, Optional, Sequence

import numpy as np
import z3

from .core import HarnessError, SymBool, cur
from .real import LogVal, SymInt, SymReal, _frac

SYM_TYPES = (SymReal, SymInt, LogVal, SymBool)


def is_sym(x) -> bool:
    from .fp import SymFP, SymBV
    from .rnd import SymRnd
    return isinstance(x, SYM_TYPES + (SymFP, SymBV, SymRnd))


class SymArray(np.ndarray):
    """object-dtype ndarray subclass; only `astype` needs overriding (numpy would call
    int()/float() on the elements), everything else is numpy's own machinery."""

    symbolic_compare = False  # when True, comparisons return object arrays of SymBool (no fork)

    def __array_finalize__(self, obj):
        pass

    def _cmp(self, other, ufunc):
        if SymArray.symbolic_compare and self.dtype == object:
            r = ufunc(np.asarray(self), other, dtype=object)
            return r.view(SymArray) if isinstance(r, np.ndarray) else r
        return ufunc(np.asarray(self), other)

    def __eq__(self, o):
        return self._cmp(o, np.equal)

    def __ne__(self, o):
        return self._cmp(o, np.not_equal)

    def __lt__(self, o):
        return self._cmp(o, np.less)

    def __le__(self, o):
        return self._cmp(o, np.less_equal)

    def __gt__(self, o):
        return self._cmp(o, np.greater)

    def __ge__(self, o):
        return self._cmp(o, np.greater_equal)

    __hash__ = None

    def astype(self, dtype, *a, **k):
        if self.dtype != object:
            return np.asarray(self).astype(dtype, *a, **k)
        dt = np.dtype(dtype) if dtype is not object else np.dtype(object)
        flat = [x for x in self.reshape(-1)] if self.ndim else [self.item()]
        if dt.kind in "iu":
            out = [x.to_int64() if hasattr(x, "to_int64") else (int(x) if not is_sym(x) else _sym_int_cast(x))
                   for x in flat]
        elif dt.kind == "f":
            out = [x if is_sym(x) else float(x) for x in flat]
        elif dt.kind == "O":
            out = flat
        else:
            raise HarnessError(f"astype({dtype}) on a symbolic array")
        res = np.empty(len(out), dtype=object)
        for i, v in enumerate(out):
            res[i] = v
        return res.reshape(self.shape).view(SymArray)


def _sym_int_cast(x):
    if isinstance(x, SymInt):
        return x
    raise HarnessError(f"integer cast of {type(x).__name__}")


def sarr(values, shape=None) -> SymArray:
    """object SymArray from a (nested) list of scalars."""
    flat: List[Any] = []

    def walk(v, depth):
        if isinstance(v, (list, tuple)):
            dims = [len(v)]
            sub = None
            for e in v:
                s = walk(e, depth + 1)
                sub = s
            return dims + (sub or [])
        flat.append(v)
        return []

    dims = walk(values, 0)
    out = np.empty(len(flat), dtype=object)
    for i, v in enumerate(flat):
        out[i] = v
    out = out.reshape(shape if shape is not None else dims)
    return out.view(SymArray)


def obj_full(shape, value) -> SymArray:
    out = np.empty(shape, dtype=object)
    out[...] = value
    return out.view(SymArray)


# --------------------------------------------------------------------------- random stub


class RandomStub:
    """Nondeterministic double for the `np.random` module-level functions tempest uses.
    Every draw is produced by a harness callback that returns fresh symbols constrained
    only by the documented contract; every call is recorded with its parameters."""

    def __init__(self, provider: Callable[[str, dict], Any], max_calls: int = 64):
        self.provider = provider
        self.calls: List[dict] = []
        self.max_calls = max_calls

    def _rec(self, kind, **kw):
        from .core import BoundExceeded
        if len(self.calls) >= self.max_calls:
            raise BoundExceeded(f"more than {self.max_calls} random draws on one path")
        rec = dict(kind=kind, index=len(self.calls), **kw)
        self.calls.append(rec)
        val = self.provider(kind, rec)
        rec["value"] = val
        return val

    def random(self, size=None):
        return self._rec("random", size=size)


    def random_sample(self, size=None):
        return self.random(size)

    def rand(self, *shape):
        return self._rec("rand", shape=shape)

    def randn(self, *shape):
        return self._rec("randn", shape=shape)

    def gamma(self, shape=None, scale=1.0, size=None):
        return self._rec("gamma", shape=shape, scale=scale, size=size)

    def choice(self, a, size=None, replace=True, p=None):
        return self._rec("choice", a=a, size=size, replace=replace, p=p)

    def seed(self, s=None):
        return self._rec("seed", seed=s)

    def multinomial(self, n, pvals, size=None):
        return self._rec("multinomial", n=n, pvals=pvals, size=size)


# --------------------------------------------------------------------------- np proxy


def _exact_log(x):
    """np.log that stays exact on concrete positive integers (-> LogVal) and symbolic values."""
    if isinstance(x, (LogVal,)):
        raise HarnessError("log of a log-domain value")
    if isinstance(x, SymReal):
        return x.log()
    if isinstance(x, (int, np.integer)) and not isinstance(x, bool):
        if int(x) <= 0:
            raise HarnessError("log of non-positive integer")
        return LogVal.log_of(int(x))
    if isinstance(x, (float, np.floating)):
        fx = float(x)
        if fx == 1.0:
            return LogVal({})
        if fx > 0 and math.isfinite(fx):
            fr = Fraction(fx).limit_denominator(4096)
            if fr.numerator / fr.denominator == fx:
                return LogVal.log_of(fr)  # the double is the quotient of two small integers (e.g. n_finite / n_total)
            return LogVal.log_of(Fraction(fx))
        if fx == 0.0:
            return float("-inf")  # numpy: log(0) = -inf (with a warning), no exception
        raise HarnessError(f"log({fx})")
    if isinstance(x, Fraction):
        return LogVal.log_of(x)
    if isinstance(x, np.ndarray):
        if x.ndim == 0:
            return _exact_log(x.item())
        out = np.empty(x.shape, dtype=object)
        for idx in np.ndindex(x.shape):
            out[idx] = _exact_log(x[idx])
        return out.view(SymArray)
    raise HarnessError(f"log of {type(x).__name__}")


def _exact_exp(x):
    if isinstance(x, LogVal):
        return x.exp()
    if isinstance(x, np.ndarray) and x.dtype == object:
        out = np.empty(x.shape, dtype=object)
        for idx in np.ndindex(x.shape):
            v = x[idx]
            out[idx] = v.exp() if isinstance(v, (LogVal, SymReal)) else (1.0 if v == 0 else np.exp(v))
        return out.view(SymArray) if x.ndim else out.item()
    return np.exp(x)


def _isclose(a, b, rtol=1e-05, atol=1e-08, equal_nan=False):
    """numpy.isclose on symbolic input: |a - b| <= atol + rtol * |b| element-wise, decided per element by the solver (forks)."""
    aa, bb = np.asarray(a), np.asarray(b)
    if aa.dtype != object and bb.dtype != object:
        return np.isclose(a, b, rtol=rtol, atol=atol, equal_nan=equal_nan)
    a_b, b_b = np.broadcast_arrays(aa.astype(object), bb.astype(object))
    out = np.empty(a_b.shape, dtype=bool)
    for idx in np.ndindex(a_b.shape):
        x, y = a_b[idx], b_b[idx]
        out[idx] = bool(abs(x - y) <= atol + rtol * abs(y))
    return out if out.ndim else bool(out)


class _LogAddExp:
    """np.logaddexp has no object loop; this is log(exp(a)+exp(b)) on log-domain scalars,
    falling through to numpy for plain float input."""

    @staticmethod
    def _pair(a, b):
        if isinstance(a, LogVal):
            return a.logaddexp(b)
        if isinstance(b, LogVal):
            return b.logaddexp(a)
        return np.logaddexp(a, b)

    def __call__(self, a, b):
        if isinstance(a, np.ndarray) or isinstance(b, np.ndarray):
            a_b, b_b = np.broadcast_arrays(np.asarray(a, dtype=object), np.asarray(b, dtype=object))
            out = np.empty(a_b.shape, dtype=object)
            for idx in np.ndindex(a_b.shape):
                out[idx] = self._pair(a_b[idx], b_b[idx])
            return out.view(SymArray)
        return self._pair(a, b)

    def reduce(self, arr, axis=0):
        arr = np.asarray(arr)
        if arr.dtype != object:
            return np.logaddexp.reduce(arr, axis=axis)
        if arr.ndim == 1:
            if arr.size == 0:
                return -np.inf
            acc = arr[0]
            for v in arr[1:]:
                acc = self._pair(acc, v)
            return acc
        moved = np.moveaxis(arr, axis, -1)
        out = np.empty(moved.shape[:-1], dtype=object)
        for idx in np.ndindex(moved.shape[:-1]):
            out[idx] = self.reduce(moved[idx])
        return out.view(SymArray)


LOGADDEXP = _LogAddExp()


class NpProxy:
    """Stands in for the module-global `np` of one tempest module. Attribute access falls
    through to real numpy; the overrides are the trusted models listed in the evidence."""

    def __init__(self, random: Optional[RandomStub] = None, exact_log: bool = False,
                 object_constructors: bool = False, overrides: Optional[Dict[str, Any]] = None):
        self._random = random
        self._exact_log = exact_log
        self._objc = object_constructors
        self._over = dict(overrides or {})
        self.used: Dict[str, int] = {}

    def __getattr__(self, name):
        if name.startswith("_"):
            raise AttributeError(name)
        if name in self._over:
            self.used[name] = self.used.get(name, 0) + 1
            return self._over[name]
        if name == "random" and self._random is not None:
            return self._random
        if name == "log" and self._exact_log:
            self.used["log"] = self.used.get("log", 0) + 1
            return _exact_log
        if name == "logaddexp" and self._exact_log:
            return LOGADDEXP
        if name == "exp" and self._exact_log:
            return _exact_exp
        if name == "log1p" and self._exact_log:
            return lambda x: _exact_log(1 + x if not isinstance(x, np.ndarray) else (np.asarray(x, dtype=object) + 1))
        if name == "isclose":
            return _isclose
        if name == "allclose":
            return lambda a, b, rtol=1e-05, atol=1e-08, equal_nan=False: bool(np.all(_isclose(a, b, rtol, atol, equal_nan)))
        if self._objc and name in ("ones", "zeros", "empty", "full", "eye", "ones_like", "zeros_like"):
            return getattr(self, "_c_" + name)
        if self._objc and name in ("array", "asarray"):
            return self._c_array if name == "array" else self._c_asarray
        return getattr(np, name)

    # np.array(x, dtype=float) of symbolic content: a float conversion is the identity on (exact) symbolic reals - keep an object copy
    @staticmethod
    def _sym_content(a):
        try:
            flat = np.asarray(a, dtype=object).reshape(-1)
        except Exception:
            return False
        return any(is_sym(v) for v in flat)

    def _c_array(self, a, dtype=None, *args, **kw):
        if dtype is not None and dtype is not object and np.dtype(dtype).kind == "f" and self._sym_content(a):
            return np.array(a, dtype=object).view(SymArray)
        return np.array(a, dtype, *args, **kw) if dtype is not None else np.array(a, *args, **kw)

    def _c_asarray(self, a, dtype=None, *args, **kw):
        if dtype is not None and dtype is not object and np.dtype(dtype).kind == "f" and self._sym_content(a):
            return np.asarray(a, dtype=object).view(SymArray)
        return np.asarray(a, dtype, *args, **kw) if dtype is not None else np.asarray(a, *args, **kw)

    # object-array constructors (so that later stores of symbols do not call float())
    def _c_ones(self, shape, dtype=None):
        if dtype is not None and np.dtype(dtype).kind in "iub":
            return np.ones(shape, dtype=dtype)
        return obj_full(shape, 1.0)

    def _c_zeros(self, shape, dtype=None):
        if dtype is not None and np.dtype(dtype).kind in "iub":
            return np.zeros(shape, dtype=dtype)
        return obj_full(shape, 0.0)

    def _c_empty(self, shape, dtype=None):
        if dtype is not None and np.dtype(dtype).kind in "iub":
            return np.empty(shape, dtype=dtype)
        return obj_full(shape, 0.0)

    def _c_full(self, shape, fill_value, dtype=None):
        return obj_full(shape, fill_value)

    def _c_eye(self, n, dtype=None):
        out = obj_full((n, n), 0.0)
        for i in range(n):
            out[i, i] = 1.0
        return out

    def _c_ones_like(self, a, dtype=None):
        return obj_full(np.shape(a), 1.0)

    def _c_zeros_like(self, a, dtype=None):
        return obj_full(np.shape(a), 0.0)


@contextlib.contextmanager
def patched(module, **attrs):
    """Temporarily replace module-level globals (e.g. np=<proxy>) of a tempest module."""
    saved = {}
    missing = object()
    for k, v in attrs.items():
        saved[k] = module.__dict__.get(k, missing)
        module.__dict__[k] = v
    try:
        yield
    finally:
        for k, v in saved.items():
            if v is missing:
                del module.__dict__[k]
            else:
                module.__dict__[k] = v


@contextlib.contextmanager
def patched_attr(obj, **attrs):
    """Temporarily replace attributes of a class/object."""
    saved = {k: obj.__dict__.get(k, None) for k in attrs}
    had = {k: k in obj.__dict__ for k in attrs}
    for k, v in attrs.items():
        setattr(obj, k, v)
    try:
        yield
    finally:
        for k in attrs:
            if had[k]:
                setattr(obj, k, saved[k])
            else:
                delattr(obj, k)


# --------------------------------------------------------------------------- closed-form linalg (d <= 2)


def inv_small(M):
    M = np.asarray(M, dtype=object)
    if M.ndim == 3:
        return np.stack([inv_small(M[i]) for i in range(M.shape[0])]).view(SymArray)
    n = M.shape[0]
    if n == 1:
        m00 = SymReal.lift(M[0, 0])
        if m00.sign != "+" and bool(m00 == 0):
            raise np.linalg.LinAlgError("Singular matrix")
        return sarr([[1 / m00]])
    if n == 2:
        a, b, c, d = [SymReal.lift(v) for v in (M[0, 0], M[0, 1], M[1, 0], M[1, 1])]
        det = a * d - b * c
        if bool(det == 0):
            raise np.linalg.LinAlgError("Singular matrix")
        r = det.reciprocal()
        return sarr([[d * r, -b * r], [-c * r, a * r]])
    if n == 3:
        A = [[SymReal.lift(M[i, j]) for j in range(3)] for i in range(3)]
        cof = [[None] * 3 for _ in range(3)]
        for i in range(3):
            for j in range(3):
                r_ = [k for k in range(3) if k != i]
                c_ = [k for k in range(3) if k != j]
                minor = A[r_[0]][c_[0]] * A[r_[1]][c_[1]] - A[r_[0]][c_[1]] * A[r_[1]][c_[0]]
                cof[i][j] = minor if (i + j) % 2 == 0 else -minor
        det = A[0][0] * cof[0][0] + A[0][1] * cof[0][1] + A[0][2] * cof[0][2]
        if bool(det == 0):
            raise np.linalg.LinAlgError("Singular matrix")
        r = det.reciprocal()
        return sarr([[cof[j][i] * r for j in range(3)] for i in range(3)])
    raise HarnessError("inv_small: d > 3")


def det_small(M):
    M = np.asarray(M, dtype=object)
    n = M.shape[0]
    if n == 1:
        return SymReal.lift(M[0, 0])
    if n == 2:
        return SymReal.lift(M[0, 0]) * M[1, 1] - SymReal.lift(M[0, 1]) * M[1, 0]
    if n == 3:
        A = [[SymReal.lift(M[i, j]) for j in range(3)] for i in range(3)]
        return (A[0][0] * (A[1][1] * A[2][2] - A[1][2] * A[2][1]) - A[0][1] * (A[1][0] * A[2][2] - A[1][2] * A[2][0])
                + A[0][2] * (A[1][0] * A[2][1] - A[1][1] * A[2][0]))
    raise HarnessError("det_small: d > 3")


def solve_small(A, B):
    return inv_small(A) @ np.asarray(B, dtype=object)


def pinv_small(A, rcond=1e-15, hermitian=False, **kw):
    """numpy.linalg.pinv for 1x1 and symmetric 2x2 matrices: eigenvalues with |lambda| <= rcond * max|lambda| are dropped
    (numpy's cut-off), the rest inverted. The cut-off test is decided by the solver (fork)."""
    M = np.asarray(A, dtype=object)
    n = M.shape[0]
    if M.shape != (n, n) or n > 2:
        raise HarnessError("pinv model: only 1x1 and symmetric 2x2 matrices")
    if n == 1:
        a = SymReal.lift(M[0, 0])
        if bool(a == 0):
            return sarr([[SymReal.const(0)]])
        return sarr([[1 / a]])
    a, b, c, e = (SymReal.lift(M[0, 0]), SymReal.lift(M[0, 1]), SymReal.lift(M[1, 0]), SymReal.lift(M[1, 1]))
    tr, det = a + e, a * e - b * c
    rc = Fraction(rcond)
    if bool(tr > 0) and bool(det >= 0):
        # positive semidefinite: lambda_- <= rc * lambda_+  <=>  det * (1 + rc)^2 <= rc * tr^2   (no square root needed for the test)
        keep_p = True
        keep_m = not bool(det * (1 + rc) ** 2 <= tr * tr * rc)
        if keep_m:
            return inv_small(M)
        r = (tr * tr - det * 4).sqrt()
        lp, lm = (tr + r) / 2, (tr - r) / 2
    else:
        r = (tr * tr - det * 4).sqrt()
        lp, lm = (tr + r) / 2, (tr - r) / 2  # lp >= lm
        big = abs(lp) if bool(abs(lp) >= abs(lm)) else abs(lm)
        keep_p = bool(abs(lp) > big * rc)
        keep_m = bool(abs(lm) > big * rc)
        if keep_p and keep_m:
            return inv_small(M)
        if not keep_p and not keep_m:
            return sarr([[SymReal.const(0)] * 2] * 2)
    lam, other = (lp, lm) if keep_p else (lm, lp)
    # spectral projector onto the kept eigenvector: (A - other*I) / (lam - other); pseudo-inverse = projector / lam
    den = (lam - other) * lam
    return sarr([[(a - other) / den, b / den], [c / den, (e - other) / den]])
