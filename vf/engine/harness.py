"""Obligations, the per-property runner, evidence, known findings, replays."""
from __future__ import annotations

import hashlib
import importlib
import inspect
import json
import multiprocessing as mp
import os
import subprocess
import sys
import tempfile
import time
import traceback
from fractions import Fraction
from typing import Any, Callable, Dict, List, Optional

import z3

from . import core
from .core import explore, STATS

VERIF_DIR = os.path.dirname(os.path.dirname(os.path.dirname(os.path.abspath(__file__))))
REPO = os.environ.get("VERIF_REPO", "/repo")

EXIT_OK, EXIT_VIOLATION, EXIT_INCONCLUSIVE = 0, 1, 3
BUDGET_S = 600  # default wall-clock budget per obligation (overridden per tier in run_property)


def jsonable(x):
    if isinstance(x, Fraction):
        return {"frac": f"{x.numerator}/{x.denominator}", "float": float(x)}
    if isinstance(x, dict):
        return {str(k): jsonable(v) for k, v in x.items()}
    if isinstance(x, (list, tuple)):
        return [jsonable(v) for v in x]
    if isinstance(x, (int, float, str, bool)) or x is None:
        return x
    try:
        import numpy as np
        if isinstance(x, np.ndarray):
            return jsonable(x.tolist())
        if isinstance(x, np.generic):
            return jsonable(x.item())
    except Exception:
        pass
    return repr(x)


def unjson_model(m):
    out = {}
    for k, v in m.items():
        if isinstance(v, dict) and "frac" in v:
            a, b = v["frac"].split("/")
            out[k] = Fraction(int(a), int(b))
        else:
            out[k] = v
    return out


class Obligation:
    """One symbolic-execution harness + its replay and (optional) semantics validation."""

    def __init__(self, name: str, harness: Callable, replay: Optional[Callable] = None,
                 validate: Optional[Callable] = None, encodes: Optional[List[Any]] = None,
                 bounds: str = "", stubs: Optional[List[str]] = None, max_paths: int = 20000,
                 max_decisions: int = 400, timeout_ms: int = core.DEFAULT_TIMEOUT_MS,
                 allow_bound: Optional[str] = None, allow_domain: Optional[str] = None,
                 expect_paths_min: int = 1, theory: str = "QF_NRA"):
        self.name = name
        self.harness = harness
        self.replay = replay
        self.validate = validate
        self.encodes = encodes or []
        self.bounds = bounds
        self.stubs = stubs or []
        self.max_paths = max_paths
        self.max_decisions = max_decisions
        self.timeout_ms = timeout_ms
        self.allow_bound = allow_bound
        self.allow_domain = allow_domain
        self.expect_paths_min = expect_paths_min
        self.theory = theory


# ---------------------------------------------------------------- second solver cross-check

XCHECK = {"budget": 0, "done": 0, "agree": 0, "disagree": 0, "inconclusive": 0, "details": []}


def xcheck_query(solver: z3.Solver, expected: str, label: str):
    """Re-decide the current assertion stack with /usr/bin/z3 4.8.12 (independent build)."""
    if XCHECK["done"] >= XCHECK["budget"]:
        return
    XCHECK["done"] += 1
    try:
        smt = solver.to_smt2()
        with tempfile.NamedTemporaryFile("w", suffix=".smt2", delete=False, dir=os.environ.get("TMPDIR", "/tmp")) as f:
            f.write(smt)
            path = f.name
        try:
            p = subprocess.run(["timeout", "60", "/usr/bin/z3", "-T:45", path], capture_output=True, text=True)
            out = p.stdout.strip().splitlines()
        finally:
            os.unlink(path)
        ans = out[0].strip() if out else "none"
        if "(error" in p.stdout:
            XCHECK["inconclusive"] += 1
            XCHECK["details"].append(f"{label}: error line from z3 4.8.12")
        elif ans == expected:
            XCHECK["agree"] += 1
        elif ans in ("sat", "unsat") and expected in ("sat", "unsat"):
            XCHECK["disagree"] += 1
            XCHECK["details"].append(f"{label}: z3-5.1={expected} z3-4.8.12={ans}")
        else:
            XCHECK["inconclusive"] += 1
    except Exception as e:  # pragma: no cover
        XCHECK["inconclusive"] += 1
        XCHECK["details"].append(f"{label}: {e}")


_orig_check = core.PathCtx.check


def _check_with_xcheck(self, label, cond, detail=None):
    self.last_query = None
    res = _orig_check(self, label, cond, detail)
    if XCHECK["done"] < XCHECK["budget"] and res.status in ("holds", "violated") and self.last_query is not None:
        xcheck_query(self.last_query, "unsat" if res.status == "holds" else "sat", label)
    self.last_query = None
    return res


core.PathCtx.check = _check_with_xcheck


# ---------------------------------------------------------------- running one obligation


def run_obligation(ob: Obligation, seed: int, xcheck_budget: int) -> Dict[str, Any]:
    core.reset_stats()
    for k in ("done", "agree", "disagree", "inconclusive"):
        XCHECK[k] = 0
    XCHECK["details"] = []
    XCHECK["budget"] = xcheck_budget
    t0 = time.time()
    summary: Dict[str, Any] = {
        "name": ob.name, "paths": 0, "feasible_paths": 0, "decisions": 0, "checks": {},
        "violations": [], "kinds": {}, "errors": [], "validated": 0, "validation_failures": [],
        "unknown": [], "samples": [], "reach_witnesses": 0,
    }
    try:
        outs = explore(ob.harness, max_paths=ob.max_paths, max_decisions=ob.max_decisions,
                       timeout_ms=ob.timeout_ms, seed=seed, want_witness=True)
    except Exception as e:
        summary["errors"].append("harness crashed: " + "".join(traceback.format_exception_only(type(e), e)).strip()
                                 + " @ " + traceback.format_exc().strip().splitlines()[-3].strip())
        outs = []
    for o in outs:
        summary["paths"] += 1
        summary["kinds"][o.kind] = summary["kinds"].get(o.kind, 0) + 1
        summary["decisions"] += o.n_taken
        if o.kind == "done":
            summary["feasible_paths"] += 1
        if o.kind == "harness_error":
            summary["errors"].append(f"path {o.path_id}: harness error: {o.exc}")
        if o.kind == "bound" and not ob.allow_bound:
            summary["errors"].append(f"path {o.path_id}: bound exceeded: {o.exc}")
        if o.kind == "overflow":
            summary["errors"].append(f"path budget exhausted: {o.exc}")
        if o.kind == "domain" and not ob.allow_domain:
            summary["errors"].append(f"path {o.path_id}: left the real-number domain: {o.exc}")
        if o.witness is not None and o.results:
            summary["reach_witnesses"] += 1
        for r in o.results:
            c = summary["checks"].setdefault(r.label, {"holds": 0, "violated": 0, "unknown": 0})
            c[r.status] += 1
            if r.status == "violated":
                summary["violations"].append({"label": r.label, "model": jsonable(r.model), "detail": jsonable(r.detail),
                                              "path": o.path_id, "decisions": o.decisions})
            elif r.status == "unknown":
                summary["unknown"].append(f"{r.label} on path {o.path_id}")
        if o.kind == "done" and ob.validate is not None and o.witness is not None:
            try:
                ok, why = ob.validate(o.witness, o.ret)
            except Exception as e:
                ok, why = False, f"validator raised {type(e).__name__}: {e}"
            if ok is None:
                pass  # validator declined this path (e.g. model on a branch boundary)
            elif ok:
                summary["validated"] += 1
            else:
                summary["validation_failures"].append(f"path {o.path_id}: {why}")
        if o.kind == "done" and len(summary["samples"]) < 3:
            summary["samples"].append({"path": o.path_id, "decisions": o.decisions,
                                       "witness": jsonable(o.witness) if o.witness else None,
                                       "checks": [f"{r.label}:{r.status}" for r in o.results][:12]})
    if summary["paths"] and summary["reach_witnesses"] < ob.expect_paths_min and not summary["errors"]:
        summary["errors"].append(
            f"vacuity guard: only {summary['reach_witnesses']} feasible paths reached an obligation "
            f"(need >= {ob.expect_paths_min})")
    summary["stats"] = dict(STATS)
    summary["xcheck"] = {k: XCHECK[k] for k in ("done", "agree", "disagree", "inconclusive")}
    summary["xcheck_details"] = list(XCHECK["details"])
    if XCHECK["disagree"]:
        summary["errors"].append("second solver disagrees: " + "; ".join(XCHECK["details"]))
    summary["wall_s"] = time.time() - t0
    return summary


_OBS: List[Obligation] = []


class _Budget(BaseException):
    pass


def _worker(args):
    i, seed, xb = args
    import signal

    def on_alarm(signum, frame):
        core.DEADLINE["hit"] = True  # also polled by the solver wrapper: an exception raised inside __del__ is swallowed
        signal.alarm(2)
        raise _Budget()
    try:
        core.DEADLINE["hit"] = False
        signal.signal(signal.SIGALRM, on_alarm)
        signal.alarm(int(getattr(_OBS[i], "budget_s", 0) or BUDGET_S))
        try:
            return run_obligation(_OBS[i], seed, xb)
        finally:
            signal.alarm(0)
    except (_Budget, core.DeadlineHit):
        signal.alarm(0)
        return {"name": _OBS[i].name, "paths": 0, "feasible_paths": 0, "decisions": 0, "checks": {},
                "violations": [], "kinds": {}, "errors": [f"wall-clock budget of the obligation exhausted (inconclusive)"],
                "validated": 0, "validation_failures": [], "unknown": [], "samples": [], "reach_witnesses": 0,
                "stats": dict(STATS), "xcheck": {}, "xcheck_details": [], "wall_s": float(getattr(_OBS[i], "budget_s", 0) or BUDGET_S)}
    except BaseException as e:  # noqa
        return {"name": _OBS[i].name, "paths": 0, "feasible_paths": 0, "decisions": 0, "checks": {},
                "violations": [], "kinds": {}, "errors": [f"worker crashed: {type(e).__name__}: {e}\n" + traceback.format_exc()],
                "validated": 0, "validation_failures": [], "unknown": [], "samples": [], "reach_witnesses": 0,
                "stats": {}, "xcheck": {}, "xcheck_details": [], "wall_s": 0.0}


def sha_of(obj) -> str:
    try:
        src = inspect.getsource(obj)
    except Exception:
        src = repr(obj)
    return hashlib.sha256(src.encode()).hexdigest()[:16]


def qualname(obj) -> str:
    return f"{getattr(obj, '__module__', '?')}.{getattr(obj, '__qualname__', repr(obj))}"


# ---------------------------------------------------------------- findings


def load_findings() -> List[dict]:
    p = os.path.join(VERIF_DIR, "known_findings.json")
    if not os.path.exists(p):
        return []
    with open(p) as f:
        return json.load(f).get("findings", [])


def match_known(findings: List[dict], prop: str, signature: str) -> Optional[dict]:
    for f in findings:
        if f.get("property") == prop and f.get("status") == "known" and f.get("signature") == signature:
            return f
    return None


# ---------------------------------------------------------------- the per-property entry point


def run_property(mod, tier: str, seed: int, jobs: int = 16, only: Optional[str] = None) -> int:
    prop = mod.PROPERTY_ID
    t0 = time.time()
    obs: List[Obligation] = mod.obligations(tier)
    if only:
        obs = [o for o in obs if only in o.name]
    global _OBS
    _OBS = obs
    global BUDGET_S
    BUDGET_S = int(os.environ.get("VERIF_OB_BUDGET", "300" if tier == "quick" else "2400"))
    xb = 2 if tier == "quick" else 12
    if os.environ.get("VERIF_NO_XCHECK"):
        xb = 0
    jobs = max(1, min(jobs, len(obs)))
    if jobs > 1:
        ctx = mp.get_context("fork")
        with ctx.Pool(jobs, maxtasksperchild=1) as pool:
            sums = pool.map(_worker, [(i, seed, xb) for i in range(len(obs))], chunksize=1)
    else:
        sums = [_worker((i, seed, xb)) for i in range(len(obs))]

    findings = load_findings()
    OUT = os.environ.get("VERIF_OUT", VERIF_DIR)  # scratch output dir for mutant self-tests
    os.makedirs(os.path.join(OUT, "replays"), exist_ok=True)
    os.makedirs(os.path.join(OUT, "evidence"), exist_ok=True)
    lines: List[str] = []
    n_viol = 0
    n_known = 0
    inconclusive: List[str] = []
    seen_sigs = set()
    replay_records = []
    for ob, s in zip(obs, sums):
        for e in s["errors"]:
            inconclusive.append(f"{ob.name}: {e}")
        for u in s["unknown"]:
            inconclusive.append(f"{ob.name}: solver unknown on {u}")
        for vf in s["validation_failures"]:
            inconclusive.append(f"{ob.name}: semantics validation failed: {vf}")
        # group violations by label; replay until one reproduces per (label)
        by_label: Dict[str, List[dict]] = {}
        for v in s["violations"]:
            by_label.setdefault(v["label"], []).append(v)
        for label, vs in by_label.items():
            sig_done = set()
            nonrepro = 0
            for v in vs:
                if ob.replay is None:
                    inconclusive.append(f"{ob.name}: violation of {label} but no replay function")
                    break
                try:
                    rep = ob.replay(unjson_model(v["model"]) if isinstance(v["model"], dict) else v["model"], label, v)
                except Exception as e:
                    rep = {"reproduced": False, "what": f"replay raised {type(e).__name__}: {e}\n{traceback.format_exc()}"}
                if not rep.get("reproduced"):
                    nonrepro += 1
                    v["replay"] = rep
                    continue
                sig = rep.get("signature") or f"{ob.name}:{label}"
                if sig in sig_done:
                    continue
                sig_done.add(sig)
                if sig in seen_sigs:
                    continue
                seen_sigs.add(sig)
                k = match_known(findings, prop, sig)
                rec = {"property": prop, "obligation": ob.name, "label": label, "signature": sig,
                       "what": rep.get("what"), "model": v["model"], "payload": jsonable(rep.get("payload")),
                       "decisions": v.get("decisions")}
                fname = f"{prop}-{ob.name}-{label}-{len(replay_records)}.json".replace("/", "_").replace(" ", "_")
                rpath = os.path.join(OUT, "replays", fname)
                with open(rpath, "w") as f:
                    json.dump(rec, f, indent=1)
                replay_records.append(rec)
                if k is not None:
                    n_known += 1
                    lines.append(f"KNOWN-FINDING: property={prop} {sig}: {k.get('what', rep.get('what'))}")
                else:
                    n_viol += 1
                    lines.append(f"VIOLATION property={prop} replay={rpath}")
                    lines.append(f"  signature={sig} what={rep.get('what')}")
            if vs and not sig_done and ob.replay is not None:
                w = vs[0].get("replay", {}).get("what")
                inconclusive.append(f"{ob.name}: {len(vs)} counterexample(s) for {label} did not reproduce on the real code "
                                    f"(encoding or stub suspect): {w}")

    wall = time.time() - t0
    # ---- evidence
    tot = lambda k: sum(s.get(k, 0) for s in sums)
    stat = lambda k: sum((s.get("stats") or {}).get(k, 0) for s in sums)
    checks_total = sum(sum(c.values()) for s in sums for c in s["checks"].values())
    checks_holds = sum(c["holds"] for s in sums for c in s["checks"].values())
    encoded = {}
    for ob in obs:
        for fn in ob.encodes:
            encoded[qualname(fn)] = sha_of(fn)
    samples = []
    for s in sums:
        for smp in s["samples"][:1]:
            samples.append({"obligation": s["name"], **smp})
    samples = samples[:8] or [{"note": "no path completed"}]
    evidence = {
        "property_id": prop,
        "tier": tier,
        "seed": seed,
        "level": "model_checking",
        "coverage": {
            "states": max(1, tot("feasible_paths")),
            "transitions": max(1, tot("decisions")),
            "traces_validated_against_impl": tot("validated"),
            "samples": samples,
            "exhaustive": not inconclusive,
            "explanation": "bounded dynamic symbolic execution of the real tempest functions; states = feasible "
                           "execution paths explored (each closed by solver queries), transitions = symbolic branch "
                           "decisions; every obligation is a z3 query path-condition AND NOT(assertion)",
            "obligations": checks_total,
            "discharged": checks_holds,
            "undecided": len(inconclusive),
            "violations_replayed": n_viol + n_known,
            "paths_total": tot("paths"),
            "path_kinds": {k: sum(s["kinds"].get(k, 0) for s in sums) for k in
                           sorted({k for s in sums for k in s["kinds"]})},
            "queries": stat("queries"),
            "solver_time_s": round(stat("solver_time_s"), 3),
            "solver_answers": {"sat": stat("sat"), "unsat": stat("unsat"), "unknown": stat("unknown")},
            "second_solver": {k: sum((s.get("xcheck") or {}).get(k, 0) for s in sums)
                              for k in ("done", "agree", "disagree", "inconclusive")},
            "functions_encoded": encoded,
            "per_obligation": [
                {"name": s["name"], "bounds": ob.bounds, "paths": s["paths"], "feasible_paths": s["feasible_paths"],
                 "reach_witnesses": s["reach_witnesses"], "checks": s["checks"], "validated": s["validated"],
                 "wall_s": round(s["wall_s"], 2), "theory": ob.theory,
                 "cuts": [c for c in (ob.allow_bound, ob.allow_domain) if c]}
                for ob, s in zip(obs, sums)],
            "trusted_base": sorted({st for ob in obs for st in ob.stubs}),
            "known_findings_reported": [l for l in lines if l.startswith("KNOWN-FINDING")],
            "inconclusive": inconclusive[:40],
        },
        "assumptions": getattr(mod, "ASSUMPTIONS", []) + sorted({st for ob in obs for st in ob.stubs}),
        "wall_s": round(wall, 2),
        "violations": n_viol,
    }
    with open(os.path.join(OUT, "evidence", f"{prop}.json"), "w") as f:
        json.dump(evidence, f, indent=1)

    for l in lines:
        print(l)
    print(f"[{prop}] tier={tier} obligations={len(obs)} paths={tot('paths')} feasible={tot('feasible_paths')} "
          f"checks={checks_total} holds={checks_holds} violations={n_viol} known={n_known} "
          f"inconclusive={len(inconclusive)} queries={stat('queries')} solver_s={stat('solver_time_s'):.1f} wall={wall:.1f}s")
    if n_viol:
        return EXIT_VIOLATION
    if inconclusive:
        for i in inconclusive[:30]:
            print("INCONCLUSIVE:", i)
        return EXIT_INCONCLUSIVE
    return EXIT_OK


def replay_file(mod, path: str) -> int:
    with open(path) as f:
        rec = json.load(f)
    obs = {o.name: o for o in mod.obligations("quick")}
    obs.update({o.name: o for o in mod.obligations("thorough")})
    ob = obs.get(rec["obligation"])
    if ob is None or ob.replay is None:
        print(f"no replay for obligation {rec['obligation']}")
        return EXIT_INCONCLUSIVE
    rep = ob.replay(unjson_model(rec["model"]), rec["label"], rec)
    print(json.dumps(jsonable(rep), indent=1))
    if rep.get("reproduced"):
        print(f"VIOLATION property={rec['property']} replay={path}")
        return EXIT_VIOLATION
    print("does not reproduce on the current tree")
    return EXIT_OK
