"""Dynamic symbolic execution core: path contexts, branching through an SMT solver,
obligation checking, exhaustive path enumeration within declared bounds.

The functions under analysis are the *real* tempest functions; they run on numpy
object arrays whose elements are the symbolic scalars defined in real.py / fp.py.
Whenever Python needs a concrete truth value (``bool(SymBool)``) the current
PathCtx asks z3 which outcomes are feasible under the path condition and follows
a decision prefix; the driver re-executes the function once per feasible prefix.
"""
from __future__ import annotations

import time
from fractions import Fraction
from typing import Any, Callable, Dict, List, Optional, Tuple

import z3

# --------------------------------------------------------------------------- stats

STATS = {
    "queries": 0,
    "sat": 0,
    "unsat": 0,
    "unknown": 0,
    "solver_time_s": 0.0,
    "branch_queries": 0,
}

DEFAULT_TIMEOUT_MS = 20000


def reset_stats():
    for k in STATS:
        STATS[k] = 0.0 if k.endswith("_s") else 0


class HarnessError(Exception):
    """The harness or a shim cannot handle what the code did (never a verdict)."""


class BoundExceeded(Exception):
    """A path exceeded the declared decision/loop budget (unwinding assertion)."""


class DomainError(Exception):
    """The real-number model left its domain (division by zero, log of non-positive ...)."""


class PathInfeasible(BaseException):
    """Raised when an `assume` makes the current path infeasible."""


_CURRENT: List["PathCtx"] = []


def cur() -> "PathCtx":
    if not _CURRENT:
        raise HarnessError("symbolic value used outside a path context")
    return _CURRENT[-1]


def have_ctx() -> bool:
    return bool(_CURRENT)


DEADLINE = {"hit": False}


class DeadlineHit(BaseException):
    pass


def _timed_check(solver: z3.Solver, *assumptions) -> str:
    if DEADLINE["hit"]:
        raise DeadlineHit()
    t = time.time()
    r = solver.check(*assumptions)
    dt = time.time() - t
    STATS["queries"] += 1
    STATS["solver_time_s"] += dt
    s = str(r)
    STATS[s] = STATS.get(s, 0) + 1
    return s


class CheckResult:
    __slots__ = ("label", "status", "model", "detail", "path_id")

    def __init__(self, label, status, model=None, detail=None, path_id=None):
        self.label = label
        self.status = status  # 'holds' | 'violated' | 'unknown'
        self.model = model
        self.detail = detail
        self.path_id = path_id

    def __repr__(self):
        return f"<{self.label}: {self.status}>"


class _ConsList:
    """the path condition; every query builds a fresh z3 solver from it so that z3 uses its
    tactic pipeline (nlsat / bit-blasting) rather than the weaker incremental cores."""

    def __init__(self):
        self.cons = []

    def add(self, *cs):
        self.cons.extend(cs)

    def assertions(self):
        return list(self.cons)


class PathCtx:
    def __init__(self, prefix: List[bool], max_decisions: int = 400, timeout_ms: int = DEFAULT_TIMEOUT_MS,
                 seed: int = 0, logic: Optional[str] = None):
        self.prefix = list(prefix)
        self.max_decisions = max_decisions
        self.timeout_ms = timeout_ms
        self.solver = _ConsList()
        self.seed = seed
        self.taken: List[Tuple[Any, bool, bool]] = []  # (cond, outcome, alternative_feasible)
        self.assumes: List[Any] = []
        self.results: List[CheckResult] = []
        self.inputs: Dict[str, Any] = {}  # name -> z3 const, for model extraction
        self.observed: Dict[str, Any] = {}  # name -> z3 term evaluated under every extracted model
        self.notes: Dict[str, Any] = {}
        self.unknown_branches = 0
        self.fresh_counter = 0
        self.path_id: Optional[int] = None
        self.last_query = None
        self.known: Dict[int, bool] = {}
        self._keep: List[Any] = []

    # -- context management
    def __enter__(self):
        _CURRENT.append(self)
        return self

    def __exit__(self, *a):
        _CURRENT.pop()
        return False

    # -- symbols
    def register(self, name: str, const):
        self.inputs[name] = const
        return const

    def observe(self, name: str, term):
        self.observed[name] = term
        return term

    def fresh_name(self, base: str) -> str:
        self.fresh_counter += 1
        return f"{base}!{self.fresh_counter}"

    # -- constraints
    def assume(self, cond) -> None:
        c = _to_z3_bool(cond)
        if z3.is_true(c):
            return
        self.solver.add(c)
        self.assumes.append(c)

    def _query(self, *extra, timeout_ms=None):
        s = z3.Solver()
        s.set("timeout", timeout_ms or self.timeout_ms)
        s.add(*self.solver.cons)
        s.add(*extra)
        return _timed_check(s), s

    def assume_checked(self, cond) -> None:
        """assume + make sure the path is still feasible (else abort the path)."""
        self.assume(cond)
        r, _ = self._query()
        if r == "unsat":
            raise PathInfeasible()

    def feasible(self) -> str:
        return self._query()[0]

    # -- branching
    def branch(self, cond) -> bool:
        c = z3.simplify(_to_z3_bool(cond))
        if z3.is_true(c):
            return True
        if z3.is_false(c):
            return False
        # syntactic cache: a condition already decided on this path (terms are hash-consed) needs no solver call
        cid = c.get_id()
        if cid in self.known:
            return self.known[cid]
        pos = len(self.taken)
        if pos >= self.max_decisions:
            raise BoundExceeded(f"more than {self.max_decisions} symbolic decisions on one path")
        if pos < len(self.prefix):
            outcome = self.prefix[pos]
            self.solver.add(c if outcome else z3.Not(c))
            self.taken.append((c, outcome, False))
            self._remember(c, outcome)
            return outcome
        STATS["branch_queries"] += 2
        rt, _ = self._query(c)
        rf, _ = self._query(z3.Not(c))
        if rt == "unknown":
            self.unknown_branches += 1
        if rf == "unknown":
            self.unknown_branches += 1
        t_ok = rt != "unsat"
        f_ok = rf != "unsat"
        if t_ok and f_ok:
            outcome, alt = True, True
        elif t_ok:
            outcome, alt = True, False
        elif f_ok:
            outcome, alt = False, False
        else:
            raise PathInfeasible()
        self.solver.add(c if outcome else z3.Not(c))
        self.taken.append((c, outcome, alt))
        self._remember(c, outcome)
        return outcome

    def _remember(self, c, outcome):
        self.known[c.get_id()] = outcome
        self._keep.append(c)
        n = z3.simplify(z3.Not(c))
        self.known[n.get_id()] = not outcome
        self._keep.append(n)

    # -- obligations
    def check(self, label: str, cond, detail=None) -> CheckResult:
        """Obligation: `cond` must hold for every value satisfying the path condition.
        Decided by a *fresh* solver (z3's tactic pipeline: nlsat for QF_NRA, bit-blasting for
        QF_FP/BV); the incremental solver used for branching would fall back to weaker cores."""
        c = _to_z3_bool(cond)
        cs = z3.simplify(c)
        if z3.is_true(cs):
            res = CheckResult(label, "holds", None, detail, self.path_id)
            self.results.append(res)
            return res
        r, s = self._query(z3.Not(c))
        model = None
        if r == "sat":
            model = self.extract_model(s.model())
            status = "violated"
        elif r == "unsat":
            status = "holds"
        else:
            status = "unknown"
            # the solver could not decide PC /\ not(cond): try models of the path condition alone as candidate
            # counterexamples (any model that falsifies cond is a genuine counterexample; it is replayed anyway)
            import random as _rnd
            rng = _rnd.Random(12345 + len(self.results))
            pool = [Fraction(p_, q_) for p_, q_ in ((1, 3), (2, 3), (1, 2), (3, 4), (1, 4), (3, 2), (2, 1), (1, 5), (4, 5), (-1, 2),
                                                    (-1, 3), (7, 10), (9, 10), (1, 10))]
            reals = [(n_, v_) for n_, v_ in self.inputs.items() if z3.is_real(v_)]
            for attempt in range(4):
                # non-degenerate candidate: pin inputs one by one to random rationals while the path stays feasible
                pins = []
                order = reals[:]
                rng.shuffle(order)
                for n_, v_ in order:
                    val = rng.choice(pool)
                    s2 = z3.Solver()
                    s2.set("timeout", 2000)
                    s2.add(*self.solver.cons)
                    s2.add(*pins)
                    s2.add(v_ == z3.RealVal(str(val)))
                    if _timed_check(s2) == "sat":
                        pins.append(v_ == z3.RealVal(str(val)))
                s2 = z3.Solver()
                s2.set("timeout", 5000)
                s2.add(*self.solver.cons)
                s2.add(*pins)
                if _timed_check(s2) != "sat":
                    continue
                m2 = s2.model()
                ev = z3.simplify(m2.eval(c, model_completion=True))
                if z3.is_false(ev):
                    model = self.extract_model(m2)
                    status = "violated"
                    break
        self.last_query = s
        res = CheckResult(label, status, model, detail, self.path_id)
        self.results.append(res)
        return res

    def fail(self, label: str, detail=None) -> CheckResult:
        """The path itself is the violation (e.g. the real code raised); get a witness."""
        r, s = self._query()
        if r == "sat":
            res = CheckResult(label, "violated", self.extract_model(s.model()), detail, self.path_id)
        elif r == "unsat":
            res = CheckResult(label, "holds", None, "path infeasible", self.path_id)
        else:
            res = CheckResult(label, "unknown", None, detail, self.path_id)
        self.results.append(res)
        return res

    def reachable(self, label: str, cond, detail=None) -> CheckResult:
        """existential obligation: some input on this path satisfies `cond` (sat -> holds, with the witness kept as the model;
        unsat -> violated: the situation can never occur; unknown -> unknown)."""
        STATS["obligation_queries"] = STATS.get("obligation_queries", 0) + 1
        r, s = self._query(_to_z3_bool(cond))
        self.last_query = list(self.solver.assertions()) + [_to_z3_bool(cond)] if hasattr(self, "last_query") else None
        if r == "sat":
            res = CheckResult(label, "holds", None, detail, self.path_id)
        elif r == "unsat":
            w = self.witness()
            res = CheckResult(label, "violated", w if w is not None else {}, detail, self.path_id)
        else:
            res = CheckResult(label, "unknown", None, detail, self.path_id)
        self.results.append(res)
        return res

    def ok(self, label: str, detail=None) -> CheckResult:
        res = CheckResult(label, "holds", None, detail, self.path_id)
        self.results.append(res)
        return res

    def witness(self) -> Optional[Dict[str, Any]]:
        """A concrete model of the path condition (for semantics validation)."""
        r, s = self._query()
        if r != "sat":
            return None
        return self.extract_model(s.model())

    def extract_model(self, m: z3.ModelRef) -> Dict[str, Any]:
        out = {}
        for name, const in self.inputs.items():
            v = m.eval(const, model_completion=True)
            out[name] = z3_value_to_py(v)
        for name, term in self.observed.items():
            v = m.eval(term, model_completion=True)
            out["obs:" + name] = z3_value_to_py(z3.simplify(v))
        return out

    def path_condition(self):
        return list(self.solver.assertions())


def z3_value_to_py(v):
    if z3.is_int_value(v):
        return v.as_long()
    if z3.is_rational_value(v):
        return Fraction(v.numerator_as_long(), v.denominator_as_long())
    if z3.is_algebraic_value(v):
        a = v.approx(30)
        return Fraction(a.numerator_as_long(), a.denominator_as_long())
    if z3.is_true(v):
        return True
    if z3.is_false(v):
        return False
    if z3.is_fp(v):
        if z3.is_fprm(v):
            return str(v)
        try:
            bv = z3.simplify(z3.fpToIEEEBV(v))
            import struct
            return struct.unpack("<d", struct.pack("<Q", bv.as_long()))[0]
        except Exception:
            return str(v)
    if z3.is_bv_value(v):
        return v.as_long()
    if z3.is_string_value(v):
        return v.as_string()
    return str(v)


def _to_z3_bool(cond):
    if isinstance(cond, SymBool):
        return cond.z
    if isinstance(cond, bool):
        return z3.BoolVal(cond)
    if z3.is_bool(cond):
        return cond
    try:
        import numpy as np
        if isinstance(cond, np.bool_):
            return z3.BoolVal(bool(cond))
    except Exception:
        pass
    raise HarnessError(f"not a boolean condition: {cond!r}")


class SymBool:
    """Symbolic truth value; bool() forks through the current path context."""
    # immutable value object: copying (copy.copy / copy.deepcopy, e.g. a deep copy of an object array) yields the same scalar
    def __copy__(self):
        return self

    def __deepcopy__(self, memo):
        return self


    __slots__ = ("z",)

    def __init__(self, z):
        self.z = z

    def __bool__(self):
        return cur().branch(self.z)

    def __and__(self, o):
        return SymBool(z3.And(self.z, _to_z3_bool(o)))

    __rand__ = __and__

    def __or__(self, o):
        return SymBool(z3.Or(self.z, _to_z3_bool(o)))

    __ror__ = __or__

    def __invert__(self):
        return SymBool(z3.Not(self.z))

    def logical_not(self):
        return SymBool(z3.Not(self.z))

    def __eq__(self, o):
        return SymBool(self.z == _to_z3_bool(o))

    def __ne__(self, o):
        return SymBool(self.z != _to_z3_bool(o))

    def __hash__(self):
        raise HarnessError("SymBool is not hashable")

    def __repr__(self):
        return f"SymBool({self.z})"


# --------------------------------------------------------------------------- driver

class PathOutcome:
    __slots__ = ("path_id", "decisions", "results", "ret", "exc", "kind", "notes", "n_taken", "witness")

    def __init__(self):
        self.path_id = None
        self.decisions = []
        self.results = []
        self.ret = None
        self.exc = None
        self.kind = "done"  # done | infeasible | bound | harness_error | domain
        self.notes = {}
        self.n_taken = 0
        self.witness = None


def explore(fn: Callable[[PathCtx], Any], max_paths: int = 20000, max_decisions: int = 400,
            timeout_ms: int = DEFAULT_TIMEOUT_MS, seed: int = 0, prefix0: Optional[List[bool]] = None,
            want_witness: bool = False) -> List[PathOutcome]:
    """Run `fn` once per feasible decision prefix (depth first). `fn` must create its
    symbols by fixed names so that every re-execution talks about the same variables."""
    outcomes: List[PathOutcome] = []
    stack: List[List[bool]] = [list(prefix0 or [])]
    n = 0
    while stack:
        prefix = stack.pop()
        if n >= max_paths:
            o = PathOutcome()
            o.kind = "overflow"
            o.exc = BoundExceeded(f"more than {max_paths} paths")
            outcomes.append(o)
            break
        ctx = PathCtx(prefix, max_decisions=max_decisions, timeout_ms=timeout_ms, seed=seed)
        ctx.path_id = n
        n += 1
        o = PathOutcome()
        o.path_id = ctx.path_id
        with ctx:
            try:
                o.ret = fn(ctx)
                if want_witness:
                    o.witness = ctx.witness()
            except PathInfeasible:
                o.kind = "infeasible"
            except BoundExceeded as e:
                o.kind = "bound"
                o.exc = e
            except DomainError as e:
                o.kind = "domain"
                o.exc = e
            except HarnessError as e:
                import traceback as _tb
                o.kind = "harness_error"
                frames = [f"{fr.filename.split('/')[-1]}:{fr.lineno}:{fr.name}" for fr in _tb.extract_tb(e.__traceback__)]
                o.exc = HarnessError(f"{e} [at {' <- '.join(reversed(frames[-6:]))}]")
        o.decisions = [t[1] for t in ctx.taken]
        o.n_taken = len(ctx.taken)
        o.results = ctx.results
        o.notes = ctx.notes
        outcomes.append(o)
        base = len(prefix)
        for i in range(base, len(ctx.taken)):
            cond, outcome, alt = ctx.taken[i]
            if alt:
                stack.append(o.decisions[:i] + [not outcome])
    return outcomes
