"""./check <ID> [--tier quick|thorough] [--replay path] [--only substr] [--jobs n]"""
import argparse
import importlib
import os
import sys


def main():
    ap = argparse.ArgumentParser()
    ap.add_argument("prop")
    ap.add_argument("--tier", default=os.environ.get("VERIF_TIER", "quick"))
    ap.add_argument("--replay")
    ap.add_argument("--only")
    ap.add_argument("--jobs", type=int, default=int(os.environ.get("VERIF_JOBS", "16")))
    a = ap.parse_args()
    repo = os.environ.get("VERIF_REPO", "/repo")
    sys.path.insert(0, repo)
    sys.dont_write_bytecode = True
    import tempest  # noqa: F401  (fresh import from the current working tree)
    if not os.path.abspath(tempest.__file__).startswith(os.path.abspath(repo)):
        print(f"tempest imported from {tempest.__file__}, expected under {repo}")
        sys.exit(3)
    from vf.engine import harness
    try:
        mod = importlib.import_module(f"vf.props.{a.prop.lower()}")
    except ModuleNotFoundError as e:
        print(f"no check for {a.prop}: {e}")
        sys.exit(3)
    seed = int(os.environ.get("VERIF_SEED", "0"))
    if a.replay:
        sys.exit(harness.replay_file(mod, a.replay))
    tier = a.tier if a.tier in ("quick", "thorough") else "quick"
    sys.exit(harness.run_property(mod, tier, seed, jobs=a.jobs, only=a.only))


if __name__ == "__main__":
    main()
