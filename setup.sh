#!/bin/bash
# Build the checking environment offline: an overlay venv on top of /venv (which holds
# tempest's own dependencies) plus z3-solver / jsonschema from the local wheelhouse.
set -e
cd "$(dirname "$0")"
if [ ! -x .venv/bin/python ] || ! .venv/bin/python -c "import z3, jsonschema, numpy" 2>/dev/null; then
  rm -rf .venv
  /venv/bin/python -m venv .venv
  SP=$(.venv/bin/python -c "import site; print(site.getsitepackages()[0])")
  echo "import site; site.addsitedir('/venv/lib/python3.12/site-packages')" > "$SP/_base_venv.pth"
  PIP_NO_INDEX=1 .venv/bin/pip install -q --no-index --find-links /opt/veriftools/wheels z3-solver jsonschema
fi
.venv/bin/python -c "import z3, numpy, scipy, jsonschema; print('verif env ok: z3', z3.get_version_string(), 'numpy', numpy.__version__)"
